/* Differential validation of shim/immintrin.h against the real <immintrin.h>: every modelled
 * intrinsic is run on random and edge operands with both implementations; results must be
 * bit-identical (NaN results are compared as "both NaN": payload selection of commutative ops is
 * operand-order dependent and GCC may swap operands).   gcc -O1 -mavx2 -mfma -mavx512f shimtest.c */
#include <immintrin.h>
#include <stdio.h>
#include <string.h>
#define SHIM_PREFIXED
#include "../shim/immintrin.h"

static uint64_t st = 0x9E3779B97F4A7C15ULL;
static uint64_t rnd(void) { st ^= st << 13; st ^= st >> 7; st ^= st << 17; return st; }
static const uint64_t EDGE[] = {0, 1, ~0ULL, 0x8000000000000000ULL, 0x7fffffffffffffffULL, 0x00000000ffffffffULL, 0xffffffff00000000ULL,
                                0x3ff0000000000000ULL, 0xbff0000000000000ULL, 0x7ff0000000000000ULL, 0xfff0000000000000ULL,
                                0x7ff8000000000001ULL, 0x0000000000000001ULL, 0x8000000000000000ULL, 0x4330000000000000ULL, 0x433fffffffffffffULL};
static uint64_t word(int it) {
  uint64_t r = rnd();
  switch (it % 4) {
    case 0: return r;
    case 1: return EDGE[r % 16];
    case 2: { uint64_t e = 1023 - 40 + (r % 80); return (r & 0x800fffffffffffffULL) | (e << 52); } /* moderate doubles */
    default: return (r >> 11) % 7 == 0 ? EDGE[r % 16] : r;
  }
}
static int bad;
static int same(const void* a, const void* b, int nwords, int isdouble) {
  const uint64_t* x = a; const uint64_t* y = b;
  for (int i = 0; i < nwords; ++i) {
    if (x[i] == y[i]) continue;
    if (isdouble) { double p, q; memcpy(&p, &x[i], 8); memcpy(&q, &y[i], 8); if (p != p && q != q) continue; }
    return 0;
  }
  return 1;
}
#define FAIL(name) do { if (bad < 20) printf("MISMATCH %s\n", name); bad++; } while (0)
#define LD(T, v) T v; { uint64_t w_[8]; for (int i_ = 0; i_ < 8; ++i_) w_[i_] = word(it); memcpy(&v, w_, sizeof(v)); }
#define CP(T, d, s) T d; memcpy(&d, &s, sizeof(d));
#define CHECK(name, r, s, isd) do { if (sizeof(r) != sizeof(s) || !same(&r, &s, sizeof(r) / 8, isd)) FAIL(name); } while (0)

#define T_DD(f) { LD(__m256d, a) LD(__m256d, b) CP(shim__m256d, sa, a) CP(shim__m256d, sb, b) __m256d r = f(a, b); shim__m256d s = shim##f(sa, sb); CHECK(#f, r, s, 1); }
#define T_DDD(f) { LD(__m256d, a) LD(__m256d, b) LD(__m256d, c) CP(shim__m256d, sa, a) CP(shim__m256d, sb, b) CP(shim__m256d, sc, c) __m256d r = f(a, b, c); shim__m256d s = shim##f(sa, sb, sc); CHECK(#f, r, s, 1); }
#define T_II(f) { LD(__m256i, a) LD(__m256i, b) CP(shim__m256i, sa, a) CP(shim__m256i, sb, b) __m256i r = f(a, b); shim__m256i s = shim##f(sa, sb); CHECK(#f, r, s, 0); }
#define T_DDi(f, imm) { LD(__m256d, a) LD(__m256d, b) CP(shim__m256d, sa, a) CP(shim__m256d, sb, b) __m256d r = f(a, b, imm); shim__m256d s = shim##f(sa, sb, imm); CHECK(#f "/" #imm, r, s, 0); }
#define T_Di(f, imm) { LD(__m256d, a) CP(shim__m256d, sa, a) __m256d r = f(a, imm); shim__m256d s = shim##f(sa, imm); CHECK(#f "/" #imm, r, s, 0); }
#define T_IIi(f, imm) { LD(__m256i, a) LD(__m256i, b) CP(shim__m256i, sa, a) CP(shim__m256i, sb, b) __m256i r = f(a, b, imm); shim__m256i s = shim##f(sa, sb, imm); CHECK(#f "/" #imm, r, s, 0); }
#define T_dd(f) { LD(__m128d, a) LD(__m128d, b) CP(shim__m128d, sa, a) CP(shim__m128d, sb, b) __m128d r = f(a, b); shim__m128d s = shim##f(sa, sb); CHECK(#f, r, s, 1); }
#define T_ddd(f) { LD(__m128d, a) LD(__m128d, b) LD(__m128d, c) CP(shim__m128d, sa, a) CP(shim__m128d, sb, b) CP(shim__m128d, sc, c) __m128d r = f(a, b, c); shim__m128d s = shim##f(sa, sb, sc); CHECK(#f, r, s, 1); }
#define T_ii(f) { LD(__m128i, a) LD(__m128i, b) CP(shim__m128i, sa, a) CP(shim__m128i, sb, b) __m128i r = f(a, b); shim__m128i s = shim##f(sa, sb); CHECK(#f, r, s, 0); }
#define T_ddi(f, imm) { LD(__m128d, a) LD(__m128d, b) CP(shim__m128d, sa, a) CP(shim__m128d, sb, b) __m128d r = f(a, b, imm); shim__m128d s = shim##f(sa, sb, imm); CHECK(#f "/" #imm, r, s, 0); }
#define T_di(f, imm) { LD(__m128d, a) CP(shim__m128d, sa, a) __m128d r = f(a, imm); shim__m128d s = shim##f(sa, imm); CHECK(#f "/" #imm, r, s, 0); }
#define T_ZZ(f) { LD(__m512d, a) LD(__m512d, b) CP(shim__m512d, sa, a) CP(shim__m512d, sb, b) __m512d r = f(a, b); shim__m512d s = shim##f(sa, sb); CHECK(#f, r, s, 1); }
#define T_ZZZ(f) { LD(__m512d, a) LD(__m512d, b) LD(__m512d, c) CP(shim__m512d, sa, a) CP(shim__m512d, sb, b) CP(shim__m512d, sc, c) __m512d r = f(a, b, c); shim__m512d s = shim##f(sa, sb, sc); CHECK(#f, r, s, 1); }
#define T_ZZi(f, imm) { LD(__m512d, a) LD(__m512d, b) CP(shim__m512d, sa, a) CP(shim__m512d, sb, b) __m512d r = f(a, b, imm); shim__m512d s = shim##f(sa, sb, imm); CHECK(#f "/" #imm, r, s, 0); }

#define IMM16(M, f) M(f,0) M(f,1) M(f,2) M(f,3) M(f,4) M(f,5) M(f,6) M(f,7) M(f,8) M(f,9) M(f,10) M(f,11) M(f,12) M(f,13) M(f,14) M(f,15)
#define IMM4(M, f) M(f,0) M(f,1) M(f,2) M(f,3)
#define IMMP2(M, f) M(f,0x00) M(f,0x01) M(f,0x02) M(f,0x03) M(f,0x10) M(f,0x11) M(f,0x12) M(f,0x13) M(f,0x20) M(f,0x21) M(f,0x22) M(f,0x23) M(f,0x30) M(f,0x31) M(f,0x32) M(f,0x33) M(f,0x08) M(f,0x80) M(f,0x88) M(f,0x28) M(f,0x82)
#define IMMP4(M, f) M(f,0x99) M(f,0xff) M(f,0x00) M(f,0x55) M(f,0xee) M(f,0xbb) M(f,0x44) M(f,0x1b) M(f,0xe4) M(f,0x4e) M(f,0xb1) M(f,0xd8) M(f,0x27) M(f,0x72) M(f,0x93) M(f,0x39)
#define IMM512(M, f) M(f,0x00) M(f,0xff) M(f,0x55) M(f,0xaa) M(f,0x0f) M(f,0xf0) M(f,0x33) M(f,0xcc) M(f,0x5a) M(f,0xa5) M(f,0x01) M(f,0x80)

int main(int argc, char** argv) {
  int have512 = __builtin_cpu_supports("avx512f");
  for (int it = 0; it < 4000; ++it) {
    T_DD(_mm256_andnot_pd) T_DD(_mm256_max_pd) T_DD(_mm256_min_pd) T_DDD(_mm256_blendv_pd)
#define T_CMP(f, imm) { LD(__m256d, a) LD(__m256d, b) if (it % 5 == 0) b = a; CP(shim__m256d, sa, a) CP(shim__m256d, sb, b) __m256d r = f(a, b, imm); shim__m256d s = shim##f(sa, sb, imm); CHECK(#f "/" #imm, r, s, 0); }
    IMM16(T_CMP, _mm256_cmp_pd) T_CMP(_mm256_cmp_pd, 16) T_CMP(_mm256_cmp_pd, 17) T_CMP(_mm256_cmp_pd, 18) T_CMP(_mm256_cmp_pd, 19) T_CMP(_mm256_cmp_pd, 20) T_CMP(_mm256_cmp_pd, 21)
    T_CMP(_mm256_cmp_pd, 22) T_CMP(_mm256_cmp_pd, 23) T_CMP(_mm256_cmp_pd, 24) T_CMP(_mm256_cmp_pd, 25) T_CMP(_mm256_cmp_pd, 26) T_CMP(_mm256_cmp_pd, 27) T_CMP(_mm256_cmp_pd, 28)
    T_CMP(_mm256_cmp_pd, 29) T_CMP(_mm256_cmp_pd, 30) T_CMP(_mm256_cmp_pd, 31)
    T_DD(_mm256_add_pd) T_DD(_mm256_sub_pd) T_DD(_mm256_mul_pd) T_DD(_mm256_addsub_pd) T_DD(_mm256_and_pd) T_DD(_mm256_or_pd) T_DD(_mm256_xor_pd)
    T_DD(_mm256_unpacklo_pd) T_DD(_mm256_unpackhi_pd)
    T_DDD(_mm256_fmadd_pd) T_DDD(_mm256_fmsub_pd) T_DDD(_mm256_fmaddsub_pd) T_DDD(_mm256_fmsubadd_pd)
    IMM16(T_DDi, _mm256_shuffle_pd) IMM16(T_Di, _mm256_permute_pd) IMMP4(T_Di, _mm256_permute4x64_pd) IMMP2(T_DDi, _mm256_permute2f128_pd)
    T_II(_mm256_add_epi64) T_II(_mm256_sub_epi64) T_II(_mm256_add_epi32) T_II(_mm256_mul_epu32) T_II(_mm256_mul_epi32) T_II(_mm256_and_si256) T_II(_mm256_or_si256) T_II(_mm256_xor_si256)
    T_II(_mm256_sllv_epi64) T_II(_mm256_srlv_epi64) T_II(_mm256_permutevar8x32_epi32) T_II(_mm256_unpacklo_epi32) T_II(_mm256_unpackhi_epi32)
    T_II(_mm256_unpacklo_epi64) T_II(_mm256_unpackhi_epi64)
    T_II(_mm256_andnot_si256) T_II(_mm256_cmpeq_epi64) T_II(_mm256_cmpgt_epi64) T_II(_mm256_cmpeq_epi32) T_II(_mm256_sub_epi32)
    { /* test / mask / select intrinsics (scalar results compared directly); operands with many equal or zero lanes so that both outcomes occur */
      LD(__m256i, a) LD(__m256i, b) LD(__m256i, c)
      if (it % 3 == 0) b = _mm256_andnot_si256(a, b);
      if (it % 5 == 0) a = _mm256_setzero_si256();
      if (it % 7 == 0) b = a;
      CP(shim__m256i, sa, a) CP(shim__m256i, sb, b) CP(shim__m256i, sc, c)
      if (_mm256_testz_si256(a, b) != shim_mm256_testz_si256(sa, sb)) FAIL("_mm256_testz_si256");
      if (_mm256_testc_si256(a, b) != shim_mm256_testc_si256(sa, sb)) FAIL("_mm256_testc_si256");
      if (_mm256_movemask_epi8(a) != shim_mm256_movemask_epi8(sa)) FAIL("_mm256_movemask_epi8");
      __m256i r = _mm256_blendv_epi8(a, b, c); shim__m256i s = shim_mm256_blendv_epi8(sa, sb, sc); CHECK("_mm256_blendv_epi8", r, s, 0);
      { /* 128/256 conversions and dword blends */
        __m128i lo = _mm256_castsi256_si128(a); shim__m128i slo = shim_mm256_castsi256_si128(sa); CHECK("_mm256_castsi256_si128", lo, slo, 0);
        __m128i e1 = _mm256_extracti128_si256(a, 1); shim__m128i se1 = shim_mm256_extracti128_si256(sa, 1); CHECK("_mm256_extracti128_si256/1", e1, se1, 0);
        __m128i e0 = _mm256_extracti128_si256(a, 0); shim__m128i se0 = shim_mm256_extracti128_si256(sa, 0); CHECK("_mm256_extracti128_si256/0", e0, se0, 0);
        r = _mm256_inserti128_si256(a, e1, 0); s = shim_mm256_inserti128_si256(sa, se1, 0); CHECK("_mm256_inserti128_si256/0", r, s, 0);
        r = _mm256_inserti128_si256(b, lo, 1); s = shim_mm256_inserti128_si256(sb, slo, 1); CHECK("_mm256_inserti128_si256/1", r, s, 0);
        /* the upper half of a 128->256 cast is undefined: only the defined half is compared */
        __m128i c0 = _mm256_castsi256_si128(_mm256_castsi128_si256(lo)); shim__m128i sc0 = shim_mm256_castsi256_si128(shim_mm256_castsi128_si256(slo)); CHECK("_mm256_castsi128_si256", c0, sc0, 0);
#define BL(imm) r = _mm256_blend_epi32(a, b, imm); s = shim_mm256_blend_epi32(sa, sb, imm); CHECK("_mm256_blend_epi32/" #imm, r, s, 0);
        BL(0x00) BL(0xff) BL(0x0f) BL(0xf0) BL(0x55) BL(0xaa) BL(0x3c) BL(0x81)
#undef BL
      }
      int sh = (int)(rnd() % 40);
      r = _mm256_srli_epi32(a, sh); s = shim_mm256_srli_epi32(sa, sh); CHECK("_mm256_srli_epi32", r, s, 0);
      r = _mm256_slli_epi32(a, sh); s = shim_mm256_slli_epi32(sa, sh); CHECK("_mm256_slli_epi32", r, s, 0);
    }
    IMMP2(T_IIi, _mm256_permute2x128_si256)
    { /* shifts with run-time counts 0..70 and small counts for sllv/srlv */
      LD(__m256i, a) CP(shim__m256i, sa, a)
      int c = (int)(rnd() % 71);
      __m256i r = _mm256_slli_epi64(a, c); shim__m256i s = shim_mm256_slli_epi64(sa, c); CHECK("_mm256_slli_epi64", r, s, 0);
      r = _mm256_srli_epi64(a, c); s = shim_mm256_srli_epi64(sa, c); CHECK("_mm256_srli_epi64", r, s, 0);
      __m256i cnt = _mm256_set_epi64x(rnd() % 70, rnd() % 70, rnd() % 66, rnd() % 64); CP(shim__m256i, scnt, cnt)
      r = _mm256_sllv_epi64(a, cnt); s = shim_mm256_sllv_epi64(sa, scnt); CHECK("_mm256_sllv_epi64/small", r, s, 0);
      r = _mm256_srlv_epi64(a, cnt); s = shim_mm256_srlv_epi64(sa, scnt); CHECK("_mm256_srlv_epi64/small", r, s, 0);
      __m256i idx = _mm256_set_epi32(rnd() % 8, rnd() % 8, rnd() % 8, rnd() % 8, rnd() % 8, rnd() % 8, rnd() % 8, rnd() % 8); CP(shim__m256i, sidx, idx)
      r = _mm256_permutevar8x32_epi32(a, idx); s = shim_mm256_permutevar8x32_epi32(sa, sidx); CHECK("_mm256_permutevar8x32_epi32/small", r, s, 0);
    }
    { /* casts, sets, loads, stores */
      LD(__m256d, a) CP(shim__m256d, sa, a) LD(__m256i, b) CP(shim__m256i, sb, b)
      __m256i r = _mm256_castpd_si256(a); shim__m256i s = shim_mm256_castpd_si256(sa); CHECK("_mm256_castpd_si256", r, s, 0);
      __m256d rd = _mm256_castsi256_pd(b); shim__m256d sd = shim_mm256_castsi256_pd(sb); CHECK("_mm256_castsi256_pd", rd, sd, 0);
      uint64_t w[8]; for (int i = 0; i < 8; ++i) w[i] = word(it);
      double dv; memcpy(&dv, &w[0], 8);
      rd = _mm256_set1_pd(dv); sd = shim_mm256_set1_pd(dv); CHECK("_mm256_set1_pd", rd, sd, 0);
      rd = _mm256_setzero_pd(); sd = shim_mm256_setzero_pd(); CHECK("_mm256_setzero_pd", rd, sd, 0);
      r = _mm256_setzero_si256(); s = shim_mm256_setzero_si256(); CHECK("_mm256_setzero_si256", r, s, 0);
      r = _mm256_set1_epi64x((long long)w[1]); s = shim_mm256_set1_epi64x((long long)w[1]); CHECK("_mm256_set1_epi64x", r, s, 0);
      r = _mm256_set1_epi32((int)w[2]); s = shim_mm256_set1_epi32((int)w[2]); CHECK("_mm256_set1_epi32", r, s, 0);
      r = _mm256_set_epi64x(w[0], w[1], w[2], w[3]); s = shim_mm256_set_epi64x(w[0], w[1], w[2], w[3]); CHECK("_mm256_set_epi64x", r, s, 0);
      r = _mm256_set_epi32((int)w[0], (int)w[1], (int)w[2], (int)w[3], (int)w[4], (int)w[5], (int)w[6], (int)w[7]);
      s = shim_mm256_set_epi32((int)w[0], (int)w[1], (int)w[2], (int)w[3], (int)w[4], (int)w[5], (int)w[6], (int)w[7]); CHECK("_mm256_set_epi32", r, s, 0);
      double buf[8] __attribute__((aligned(32))); memcpy(buf, w, 64);
      rd = _mm256_loadu_pd(buf + 1); sd = shim_mm256_loadu_pd(buf + 1); CHECK("_mm256_loadu_pd", rd, sd, 0);
      rd = _mm256_load_pd(buf + 4); sd = shim_mm256_load_pd(buf + 4); CHECK("_mm256_load_pd", rd, sd, 0);
      r = _mm256_loadu_si256((__m256i*)(buf + 3)); s = shim_mm256_loadu_si256((shim__m256i*)(buf + 3)); CHECK("_mm256_loadu_si256", r, s, 0);
      double o1[6] = {0}, o2[6] = {0};
      _mm256_storeu_pd(o1 + 1, a); shim_mm256_storeu_pd(o2 + 1, sa); if (memcmp(o1, o2, sizeof o1)) FAIL("_mm256_storeu_pd");
      _mm256_storeu_si256((__m256i*)(o1 + 2), b); shim_mm256_storeu_si256((shim__m256i*)(o2 + 2), sb); if (memcmp(o1, o2, sizeof o1)) FAIL("_mm256_storeu_si256");
      __m128d lo, hi; memcpy(&lo, &w[4], 16); memcpy(&hi, &w[6], 16); CP(shim__m128d, slo, lo) CP(shim__m128d, shi, hi)
      rd = _mm256_set_m128d(hi, lo); sd = shim_mm256_set_m128d(shi, slo); CHECK("_mm256_set_m128d", rd, sd, 0);
    }
    T_dd(_mm_add_pd) T_dd(_mm_sub_pd) T_dd(_mm_mul_pd) T_dd(_mm_xor_pd) T_dd(_mm_unpacklo_pd) T_dd(_mm_unpackhi_pd)
    T_ddd(_mm_fmadd_pd) T_ddd(_mm_fmsub_pd) T_ddd(_mm_fmaddsub_pd)
    IMM4(T_ddi, _mm_shuffle_pd) IMM4(T_di, _mm_permute_pd)
    T_ii(_mm_add_epi64) T_ii(_mm_sub_epi64)
    {
      uint64_t w[4]; for (int i = 0; i < 4; ++i) w[i] = word(it);
      double buf[4] __attribute__((aligned(16))); memcpy(buf, w, 32);
      __m128d rd = _mm_loadu_pd(buf + 1); shim__m128d sd = shim_mm_loadu_pd(buf + 1); CHECK("_mm_loadu_pd", rd, sd, 0);
      rd = _mm_load_pd(buf + 2); sd = shim_mm_load_pd(buf + 2); CHECK("_mm_load_pd", rd, sd, 0);
      __m128i r = _mm_loadu_si128((__m128i*)(buf + 1)); shim__m128i s = shim_mm_loadu_si128((shim__m128i*)(buf + 1)); CHECK("_mm_loadu_si128", r, s, 0);
      double o1[4] = {0}, o2[4] = {0};
      _mm_storeu_pd(o1 + 1, rd); shim_mm_storeu_pd(o2 + 1, sd); if (memcmp(o1, o2, sizeof o1)) FAIL("_mm_storeu_pd");
      _mm_storeu_si128((__m128i*)(o1 + 2), r); shim_mm_storeu_si128((shim__m128i*)(o2 + 2), s); if (memcmp(o1, o2, sizeof o1)) FAIL("_mm_storeu_si128");
      double dv; memcpy(&dv, &w[0], 8);
      rd = _mm_set1_pd(dv); sd = shim_mm_set1_pd(dv); CHECK("_mm_set1_pd", rd, sd, 0);
      r = _mm_set1_epi64x((long long)w[1]); s = shim_mm_set1_epi64x((long long)w[1]); CHECK("_mm_set1_epi64x", r, s, 0);
      r = _mm_set_epi64x((long long)w[1], (long long)w[2]); s = shim_mm_set_epi64x((long long)w[1], (long long)w[2]); CHECK("_mm_set_epi64x", r, s, 0);
      rd = _mm_castsi128_pd(r); sd = shim_mm_castsi128_pd(s); CHECK("_mm_castsi128_pd", rd, sd, 0);
      if (_mm_popcnt_u32((unsigned)w[3]) != shim_mm_popcnt_u32((unsigned)w[3])) FAIL("_mm_popcnt_u32");
    }
    if (have512) {
      T_ZZ(_mm512_add_pd) T_ZZ(_mm512_sub_pd) T_ZZ(_mm512_mul_pd) T_ZZZ(_mm512_fmaddsub_pd) IMM512(T_ZZi, _mm512_shuffle_pd)
      LD(__m256d, a) CP(shim__m256d, sa, a)
      __m512d r = _mm512_broadcast_f64x4(a); shim__m512d s = shim_mm512_broadcast_f64x4(sa); CHECK("_mm512_broadcast_f64x4", r, s, 0);
      double buf[9]; for (int i = 0; i < 9; ++i) { uint64_t w = word(it); memcpy(&buf[i], &w, 8); }
      r = _mm512_loadu_pd(buf + 1); s = shim_mm512_loadu_pd(buf + 1); CHECK("_mm512_loadu_pd", r, s, 0);
      double o1[10] = {0}, o2[10] = {0};
      _mm512_storeu_pd(o1 + 1, r); shim_mm512_storeu_pd(o2 + 1, s); if (memcmp(o1, o2, sizeof o1)) FAIL("_mm512_storeu_pd");
    }
  }
  printf("shimtest: %d mismatches (avx512 part %s)\n", bad, have512 ? "run" : "skipped: cpu has no avx512f");
  return bad != 0;
}
