#!/bin/sh
# usage: tools/seedtry.sh <patch.diff> <Cxx> [check args...]
# Like seedtest.sh, but on a scratch worktree of /repo (VF_REPO), so that several seeded changes can be tried in parallel and
# /repo, /verif/evidence and /verif/out/replay stay untouched.  The final confirmation of a seed uses seedtest.sh on /repo itself.
P="$1"; shift; C="$1"; shift
W=$(mktemp -d /tmp/vfseed.XXXXXX)
git -C /repo worktree add --detach "$W/r" HEAD >/dev/null 2>&1 || { echo "worktree failed"; exit 9; }
git -C "$W/r" apply "$P" || { echo "patch does not apply"; git -C /repo worktree remove --force "$W/r"; rm -rf "$W"; exit 9; }
VF_REPO="$W/r" /verif/check "$C" "$@" > "$W/log" 2>&1; rc=$?
grep -E '^(VIOLATION|INCONCLUSIVE|KNOWN-FINDING|SUMMARY)' "$W/log" | cut -c1-300 | head -12
echo "exit=$rc"
git -C /repo worktree remove --force "$W/r"; rm -rf "$W" "/verif/out/scratch-$(echo "$W/r" | sed 's/[^A-Za-z0-9]/_/g')"
exit $rc
