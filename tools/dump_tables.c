/* Table dumper: runs the REAL precomputation code of the working tree natively (both CPU-flag
 * settings, through the cpu hook) and prints a C header with
 *   - the twiddle tables of reim/cplx fft/ifft for the requested m,
 *   - which kernel each builder selected (function names, by pointer comparison),
 *   - the q120 NTT/iNTT level metadata, reduction metadata and packed power tables for the requested n.
 * The harnesses construct *_PRECOMP objects from this header instead of running the builders
 * under the solver (libm sin/cos, pointer<->integer casts; DESIGN.md 2.1).
 *
 * usage: dump_tables M m1,m2,... N n1,n2,... [L n1,n2,...  (NTT level metadata only)]
 */
#include <inttypes.h>
#include <stdio.h>
#include <stdlib.h>
#include <string.h>

#include "cplx/cplx_fft_internal.h"
#include "cplx/cplx_fft_private.h"
#include "q120/q120_ntt_private.h"
#include "q120/q120_arithmetic.h"
#include "q120/q120_arithmetic_private.h"
#include "reim/reim_fft_internal.h"
#include "reim/reim_fft_private.h"
#include "reim4/reim4_fftvec_internal.h"
#include "reim4/reim4_fftvec_private.h"

int vf_cpu_avx;
int vf_cpu_supports(const char* f) {
  (void)f;
  return vf_cpu_avx;
}

struct sym {
  const char* name;
  void* p;
};
#define S(x) {#x, (void*)x}
EXPORT void cplx_fft_avx2_fma(const CPLX_FFT_PRECOMP*, void*);
EXPORT void cplx_ifft_avx2_fma(const CPLX_IFFT_PRECOMP*, void*);
static struct sym SYMS[] = {
    S(reim_fft_ref), S(reim_fft_avx2_fma), S(reim_ifft_ref), S(reim_ifft_avx2_fma), S(reim_fftvec_mul_ref), S(reim_fftvec_mul_fma),
    S(reim_fftvec_addmul_ref), S(reim_fftvec_addmul_fma), S(reim_from_znx64_ref), S(reim_from_znx64_bnd50_fma), S(reim_to_znx64_ref),
    S(reim_to_znx64_avx2_bnd50_fma), S(reim_to_znx64_avx2_bnd63_fma), S(reim_to_tnx_ref), S(reim_to_tnx_avx),
    S(cplx_fft_ref), S(cplx_fft_avx2_fma), S(cplx_ifft_ref), S(cplx_ifft_avx2_fma), S(cplx_fftvec_mul_ref), S(cplx_fftvec_mul_fma),
    S(cplx_fftvec_addmul_ref), S(cplx_fftvec_addmul_fma), S(cplx_from_znx32_ref), S(cplx_from_znx32_avx2_fma), S(cplx_from_tnx32_ref),
    S(cplx_from_tnx32_avx2_fma), S(cplx_to_tnx32_ref), S(cplx_to_tnx32_avx2_fma),
    S(reim4_fftvec_mul_ref), S(reim4_fftvec_mul_fma), S(reim4_fftvec_addmul_ref), S(reim4_fftvec_addmul_fma),
    S(reim4_from_cplx_ref), S(reim4_from_cplx_fma), S(reim4_to_cplx_ref), S(reim4_to_cplx_fma),
};
static const char* nameof(void* p) {
  for (unsigned i = 0; i < sizeof(SYMS) / sizeof(SYMS[0]); ++i)
    if (SYMS[i].p == p) return SYMS[i].name;
  return "VF_UNKNOWN_FUNCTION";
}

static void dump_doubles(const char* name, const double* d, uint64_t n) {
  printf("static const double %s[%" PRIu64 "] __attribute__((aligned(64))) = {", name, n ? n : 1);
  for (uint64_t i = 0; i < n; ++i) printf("%s%a", i ? "," : "", d[i]);
  if (!n) printf("0");
  printf("};\n");
}
static void dump_u64(const char* name, const uint64_t* d, uint64_t n) {
  printf("static const uint64_t %s[%" PRIu64 "] __attribute__((aligned(32))) = {", name, n ? n : 1);
  for (uint64_t i = 0; i < n; ++i) printf("%sUINT64_C(%" PRIu64 ")", i ? "," : "", d[i]);
  if (!n) printf("0");
  printf("};\n");
}

static uint64_t ilog2(uint64_t n) {
  uint64_t l = 0;
  while ((UINT64_C(1) << l) < n) ++l;
  return l;
}

static void dump_m(uint32_t m) {
  char nm[128];
  for (int avx = 0; avx < 2; ++avx) {
    vf_cpu_avx = avx;
    uint64_t nd = 2 * (uint64_t)m < 8 ? 8 : 2 * (uint64_t)m;
    REIM_FFT_PRECOMP* f = new_reim_fft_precomp(m, 0);
    REIM_IFFT_PRECOMP* g = new_reim_ifft_precomp(m, 0);
    CPLX_FFT_PRECOMP* cf = new_cplx_fft_precomp(m, 0);
    CPLX_IFFT_PRECOMP* cg = new_cplx_ifft_precomp(m, 0);
    if (avx == 0) {
      snprintf(nm, sizeof nm, "VFT_REIM_FFT_OMG_%u", m);
      dump_doubles(nm, f->powomegas, nd);
      snprintf(nm, sizeof nm, "VFT_REIM_IFFT_OMG_%u", m);
      dump_doubles(nm, g->powomegas, nd);
      /* cplx tables: OMG_SPACE = ceilto64b(2m complexes) */
      uint64_t ndc = 4 * (uint64_t)m < 8 ? 8 : 4 * (uint64_t)m;
      snprintf(nm, sizeof nm, "VFT_CPLX_FFT_OMG_%u", m);
      dump_doubles(nm, cf->powomegas, ndc);
      snprintf(nm, sizeof nm, "VFT_CPLX_IFFT_OMG_%u", m);
      dump_doubles(nm, cg->powomegas, ndc);
    }
    printf("#define VFT_REIM_FFT_FUNC_%u_AVX%d %s\n", m, avx, nameof((void*)f->function));
    printf("#define VFT_REIM_IFFT_FUNC_%u_AVX%d %s\n", m, avx, nameof((void*)g->function));
    printf("#define VFT_CPLX_FFT_FUNC_%u_AVX%d %s\n", m, avx, nameof((void*)cf->function));
    printf("#define VFT_CPLX_IFFT_FUNC_%u_AVX%d %s\n", m, avx, nameof((void*)cg->function));
    REIM_FFTVEC_MUL_PRECOMP* mu = new_reim_fftvec_mul_precomp(m);
    REIM_FFTVEC_ADDMUL_PRECOMP* am = new_reim_fftvec_addmul_precomp(m);
    printf("#define VFT_REIM_MUL_FUNC_%u_AVX%d %s\n", m, avx, nameof((void*)mu->function));
    printf("#define VFT_REIM_ADDMUL_FUNC_%u_AVX%d %s\n", m, avx, nameof((void*)am->function));
    REIM_FROM_ZNX64_PRECOMP* fz = new_reim_from_znx64_precomp(m, 50);
    printf("#define VFT_REIM_FROM_ZNX64_FUNC_%u_AVX%d %s\n", m, avx, nameof((void*)fz->function));
    REIM_TO_ZNX64_PRECOMP* tz = new_reim_to_znx64_precomp(m, m, 63);
    printf("#define VFT_REIM_TO_ZNX64_FUNC_%u_AVX%d %s\n", m, avx, nameof((void*)tz->function));
    printf("#define VFT_REIM_TO_ZNX64_DIVISOR_%u_AVX%d %a\n", m, avx, tz->divisor);
    CPLX_FFTVEC_MUL_PRECOMP* cmu = new_cplx_fftvec_mul_precomp(m);
    CPLX_FFTVEC_ADDMUL_PRECOMP* cam = new_cplx_fftvec_addmul_precomp(m);
    printf("#define VFT_CPLX_MUL_FUNC_%u_AVX%d %s\n", m, avx, nameof((void*)cmu->function));
    printf("#define VFT_CPLX_ADDMUL_FUNC_%u_AVX%d %s\n", m, avx, nameof((void*)cam->function));
    free(f);
    free(g);
    free(cf);
    free(cg);
    free(mu);
    free(am);
    free(fz);
    free(tz);
    free(cmu);
    free(cam);
  }
}

static void dump_ntt(const char* kind, q120_ntt_precomp* p, uint64_t n, int meta_only) {
  char nm[128];
  uint64_t nlev = n == 1 ? 0 : ilog2(n) + 1;
  printf("#define VFT_%s_NLEV_%" PRIu64 " %" PRIu64 "\n", kind, n, nlev);
  printf("static const q120_ntt_step_precomp VFT_%s_META_%" PRIu64 "[%" PRIu64 "] = {", kind, n, nlev ? nlev : 1);
  for (uint64_t l = 0; l < nlev; ++l) {
    q120_ntt_step_precomp* s = p->level_metadata + l;
    int first_fwd = (l == 0 && !strcmp(kind, "NTT"));
    printf("%s{{UINT64_C(%" PRIu64 "),UINT64_C(%" PRIu64 "),UINT64_C(%" PRIu64 "),UINT64_C(%" PRIu64 ")},%" PRIu64 ",%" PRIu64 ",UINT64_C(%" PRIu64 "),%u}",
           l ? "," : "", first_fwd ? 0 : s->q2bs[0], first_fwd ? 0 : s->q2bs[1], first_fwd ? 0 : s->q2bs[2], first_fwd ? 0 : s->q2bs[3],
           s->bs, s->half_bs, s->mask, first_fwd ? 0 : (unsigned)s->reduce);
  }
  if (!nlev) printf("{{0,0,0,0},0,0,0,0}");
  printf("};\n");
  snprintf(nm, sizeof nm, "VFT_%s_POW_%" PRIu64, kind, n);
  /* words actually written by the builder: n + sum_{nn=4..n}(nn/2-1) vectors of 4 lanes */
  uint64_t nvec = 0;
  if (n > 1) {
    nvec = n;
    for (uint64_t nn = 4; nn <= n; nn *= 2) nvec += nn / 2 - 1;
  }
  if (!meta_only) {
    dump_u64(nm, p->powomega, 4 * nvec);
    printf("#define VFT_%s_POW_WORDS_%" PRIu64 " %" PRIu64 "\n", kind, n, 4 * nvec);
  }
  {
    /* largest low / high 32-bit half of the packed power table per prime lane (exhaustive scan of the table of the working tree):
     * the per-level interval induction (C04) takes the twiddle halves as symbols bounded by these */
    uint64_t tmax[4] = {0, 0, 0, 0}, t1max[4] = {0, 0, 0, 0};
    for (uint64_t i = 0; i < 4 * nvec; ++i) {
      uint64_t lo = p->powomega[i] & 0xffffffffu, hi = p->powomega[i] >> 32;
      if (lo > tmax[i % 4]) tmax[i % 4] = lo;
      if (hi > t1max[i % 4]) t1max[i % 4] = hi;
    }
    printf("#define VFT_%s_TMAX_%" PRIu64 " {%" PRIu64 ",%" PRIu64 ",%" PRIu64 ",%" PRIu64 "}\n", kind, n, tmax[0], tmax[1], tmax[2], tmax[3]);
    printf("#define VFT_%s_T1MAX_%" PRIu64 " {%" PRIu64 ",%" PRIu64 ",%" PRIu64 ",%" PRIu64 "}\n", kind, n, t1max[0], t1max[1], t1max[2], t1max[3]);
  }
  if (n > 1) {
    printf("static const q120_ntt_reduc_step_precomp VFT_%s_REDUC_%" PRIu64 " = {{UINT64_C(%" PRIu64 "),UINT64_C(%" PRIu64 "),UINT64_C(%" PRIu64
           "),UINT64_C(%" PRIu64 ")},UINT64_C(%" PRIu64 "),%" PRIu64 "};\n",
           kind, n, p->reduc_metadata.modulo_red_cst[0], p->reduc_metadata.modulo_red_cst[1], p->reduc_metadata.modulo_red_cst[2],
           p->reduc_metadata.modulo_red_cst[3], p->reduc_metadata.mask, p->reduc_metadata.h);
  } else {
    printf("static const q120_ntt_reduc_step_precomp VFT_%s_REDUC_%" PRIu64 " = {{0,0,0,0},0,0};\n", kind, n);
  }
  printf("#define VFT_%s_INBITS_%" PRIu64 " %" PRIu64 "\n", kind, n, p->input_bit_size);
  printf("#define VFT_%s_OUTBITS_%" PRIu64 " %" PRIu64 "\n", kind, n, n > 1 ? p->output_bit_size : 64);
}

static void parse_list(const char* s, uint64_t* out, int* n) {
  *n = 0;
  while (*s) {
    out[(*n)++] = strtoull(s, (char**)&s, 10);
    if (*s == ',') ++s;
  }
}

int main(int argc, char** argv) {
  uint64_t ms[64], ns[64], ls[64];
  int nm = 0, nn = 0, nl = 0;
  for (int i = 1; i + 1 < argc; i += 2) {
    if (!strcmp(argv[i], "M")) parse_list(argv[i + 1], ms, &nm);
    if (!strcmp(argv[i], "N")) parse_list(argv[i + 1], ns, &nn);
    if (!strcmp(argv[i], "L")) parse_list(argv[i + 1], ls, &nl); /* level metadata only (no power table): large n */
  }
  printf("/* generated by tools/dump_tables.c from the working tree - do not edit */\n#ifndef VF_TABLES_H\n#define VF_TABLES_H\n#include <stdint.h>\n#include \"q120/q120_ntt_private.h\"\n");
  printf("#define VFT_Q1 UINT64_C(%u)\n#define VFT_Q2 UINT64_C(%u)\n#define VFT_Q3 UINT64_C(%u)\n#define VFT_Q4 UINT64_C(%u)\n", Q1, Q2, Q3, Q4);
  {
    /* product precomputations (h selection uses libm log2/pow): dumped, then re-validated by the range obligations */
    q120_mat1col_product_baa_precomp* a = q120_new_vec_mat1col_product_baa_precomp();
    q120_mat1col_product_bbb_precomp* b = q120_new_vec_mat1col_product_bbb_precomp();
    q120_mat1col_product_bbc_precomp* c = q120_new_vec_mat1col_product_bbc_precomp();
    printf("#define VFT_BAA_INIT {UINT64_C(%" PRIu64 "),{", a->h);
    for (int k = 0; k < 4; ++k) printf("%sUINT64_C(%" PRIu64 ")", k ? "," : "", a->h_pow_red[k]);
    printf("}}\n");
    printf("#define VFT_BBB_INIT {UINT64_C(%" PRIu64 ")", b->h);
    uint64_t* tabs[7] = {b->s1h_pow_red, b->s2l_pow_red, b->s2h_pow_red, b->s3l_pow_red, b->s3h_pow_red, b->s4l_pow_red, b->s4h_pow_red};
    for (int t = 0; t < 7; ++t) {
      printf(",{");
      for (int k = 0; k < 4; ++k) printf("%sUINT64_C(%" PRIu64 ")", k ? "," : "", tabs[t][k]);
      printf("}");
    }
    printf("}\n");
    printf("#define VFT_BBC_INIT {UINT64_C(%" PRIu64 "),{", c->h);
    for (int k = 0; k < 4; ++k) printf("%sUINT64_C(%" PRIu64 ")", k ? "," : "", c->s2l_pow_red[k]);
    printf("},{");
    for (int k = 0; k < 4; ++k) printf("%sUINT64_C(%" PRIu64 ")", k ? "," : "", c->s2h_pow_red[k]);
    printf("}}\n");
    q120_delete_vec_mat1col_product_baa_precomp(a);
    q120_delete_vec_mat1col_product_bbb_precomp(b);
    q120_delete_vec_mat1col_product_bbc_precomp(c);
  }
  for (int i = 0; i < nm; ++i) dump_m((uint32_t)ms[i]);
  vf_cpu_avx = 1;
  for (int i = 0; i < nn; ++i) {
    q120_ntt_precomp* p = q120_new_ntt_bb_precomp(ns[i]);
    dump_ntt("NTT", p, ns[i], 0);
    q120_del_ntt_bb_precomp(p);
    p = q120_new_intt_bb_precomp(ns[i]);
    dump_ntt("INTT", p, ns[i], 0);
    q120_del_intt_bb_precomp(p);
  }
  for (int i = 0; i < nl; ++i) {
    int dup = 0;
    for (int j = 0; j < nn; ++j) dup |= ns[j] == ls[i];
    if (dup) continue;
    q120_ntt_precomp* p = q120_new_ntt_bb_precomp(ls[i]);
    dump_ntt("NTT", p, ls[i], 1);
    q120_del_ntt_bb_precomp(p);
    p = q120_new_intt_bb_precomp(ls[i]);
    dump_ntt("INTT", p, ls[i], 1);
    q120_del_intt_bb_precomp(p);
  }
  printf("#endif\n");
  return 0;
}
