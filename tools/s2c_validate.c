#include <stdio.h>
#include <stdlib.h>
#include <string.h>
#include <stdint.h>
void reim_fft16_avx_fma(double*, double*, const void*); void reim_fft16_avx_fma_s2c(double*, double*, const void*);
void reim_ifft16_avx_fma(double*, double*, const void*); void reim_ifft16_avx_fma_s2c(double*, double*, const void*);
void cplx_fft16_avx_fma(void*, const void*); void cplx_fft16_avx_fma_s2c(void*, const void*);
void cplx_ifft16_avx_fma(void*, const void*); void cplx_ifft16_avx_fma_s2c(void*, const void*);
static uint64_t s = 88172645463325252ULL;
static uint64_t rnd(void) { s ^= s << 13; s ^= s >> 7; s ^= s << 17; return s; }
static double rd(int mode) {
  uint64_t r = rnd();
  if (mode == 0) return (double)(int64_t)r / 9.2e18;
  if (mode == 1) { double x; r &= ~(UINT64_C(0x7ff) << 52); r |= (uint64_t)(1023 - 30 + rnd() % 60) << 52; memcpy(&x, &r, 8); return x; }
  double x; memcpy(&x, &r, 8); return x; /* arbitrary bit patterns incl. NaN/inf/denormals */
}
static int differ(const double* a, const double* b, int n) {
  for (int i = 0; i < n; ++i) {
    if (a[i] != a[i] && b[i] != b[i]) continue; /* both NaN: the payload depends on operand order of commutative ops, which a compiler may swap */
    if (memcmp(&a[i], &b[i], 8)) return 1;
  }
  return 0;
}
int main(void) {
  int bad = 0;
  for (int it = 0; it < 3000; ++it) {
    int mode = it % 3;
    double d1[32], d2[32], om[64];
    for (int i = 0; i < 32; ++i) d1[i] = d2[i] = rd(mode);
    for (int i = 0; i < 64; ++i) om[i] = rd(mode);
    reim_fft16_avx_fma(d1, d1 + 16, om); reim_fft16_avx_fma_s2c(d2, d2 + 16, om);
    if (differ(d1, d2, 32)) { bad++; printf("reim_fft16 mismatch it=%d\n", it); }
    for (int i = 0; i < 32; ++i) d1[i] = d2[i] = rd(mode);
    reim_ifft16_avx_fma(d1, d1 + 16, om); reim_ifft16_avx_fma_s2c(d2, d2 + 16, om);
    if (differ(d1, d2, 32)) { bad++; printf("reim_ifft16 mismatch it=%d\n", it); }
    for (int i = 0; i < 32; ++i) d1[i] = d2[i] = rd(mode);
    cplx_fft16_avx_fma(d1, om); cplx_fft16_avx_fma_s2c(d2, om);
    if (differ(d1, d2, 32)) { bad++; printf("cplx_fft16 mismatch it=%d\n", it); }
    for (int i = 0; i < 32; ++i) d1[i] = d2[i] = rd(mode);
    cplx_ifft16_avx_fma(d1, om); cplx_ifft16_avx_fma_s2c(d2, om);
    if (differ(d1, d2, 32)) { bad++; printf("cplx_ifft16 mismatch it=%d\n", it); }
  }
  printf("s2c validation: %d mismatches\n", bad);
  return bad != 0;
}
