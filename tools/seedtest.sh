#!/bin/sh
# usage: tools/seedtest.sh <patch.diff> <Cxx> [check args...]   -- applies a seeded change to /repo, runs the check, reverts
P="$1"; shift; C="$1"; shift
git -C /repo apply "$P" || { echo "patch does not apply"; exit 9; }
/verif/check "$C" "$@" > /tmp/seedtest.$$.log 2>&1; rc=$?
git -C /repo checkout -- .
grep -E '^(VIOLATION|INCONCLUSIVE|KNOWN-FINDING|SUMMARY)' /tmp/seedtest.$$.log | cut -c1-300 | head -12
echo "exit=$rc"; rm -f /tmp/seedtest.$$.log
exit $rc
