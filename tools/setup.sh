#!/bin/sh
# offline setup: nothing to build ahead of time (every check rebuilds from /repo's working tree);
# only verify that the pre-installed tools are present.
set -e
for t in cbmc goto-cc gcc python3-vt z3 cvc5 ar; do command -v $t >/dev/null || { echo "missing tool: $t"; exit 1; }; done
cbmc --version | grep -q '^6\.' || { echo "unexpected cbmc version"; exit 1; }
python3-vt -c "import z3, mpmath, sympy" || exit 1
mkdir -p "$(dirname "$0")/../out" "$(dirname "$0")/../evidence"
echo setup ok
