#!/usr/bin/env python3
"""./check <Cxx> [--tier quick|thorough] [--replay path] [--jobs N] [--only regex]"""
import argparse
import importlib
import json
import os
import re
import sys

sys.path.insert(0, os.path.dirname(os.path.dirname(os.path.abspath(__file__))))
from vf import core  # noqa: E402


def main():
    ap = argparse.ArgumentParser()
    ap.add_argument("prop")
    ap.add_argument("--tier", default=os.environ.get("VERIF_TIER", "quick"), choices=["quick", "thorough"])
    ap.add_argument("--jobs", type=int, default=int(os.environ.get("VF_JOBS", "16")))
    ap.add_argument("--replay")
    ap.add_argument("--only", help="regex on obligation names (debugging; evidence goes to out/partial-evidence/)")
    ap.add_argument("--list", action="store_true")
    a = ap.parse_args()
    seed = int(os.environ.get("VERIF_SEED", "0") or 0)
    prop = a.prop.upper()
    ctx = core.Ctx(prop, a.tier, seed, a.jobs)
    ctx.filtered = bool(a.only)  # a run restricted with --only writes its evidence under out/partial-evidence/, never over evidence/<id>.json
    if a.replay:
        rec = json.load(open(a.replay))
        d = ctx.scratch.sub("replay")
        ok, text = core.replay_record(ctx, rec, d)
        print(text)
        print("REPLAY reproduced=%s" % ok)
        sys.exit(1 if ok else 0)
    mod = importlib.import_module("vf.props." + prop.lower())
    try:
        rc = mod.check(ctx, only=re.compile(a.only) if a.only else None, list_only=a.list)
    except core.BuildError as ex:
        core.log("INCONCLUSIVE property=%s build failure: %s" % (prop, ex))
        rc = 2
    sys.exit(rc)


if __name__ == "__main__":
    main()
