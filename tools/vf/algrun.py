"""python3-vt -m vf.algrun  < spec.json : runs one algebraic analysis on an exported VC, prints one JSON line"""
import importlib
import json
import sys
import time
import traceback

from vf import vcalg


def main():
    spec = json.loads(sys.stdin.read())
    modname, fn = spec["analysis"].split(":")
    t0 = time.time()
    try:
        mod = importlib.import_module(modname)
        out = vcalg.run_in_big_stack(getattr(mod, fn), spec["smt2"], spec["params"], spec)
    except vcalg.Unsupported as ex:
        out = {"status": "INCONCLUSIVE", "detail": "vcalg refused: %s" % ex}
    except Exception as ex:  # noqa
        out = {"status": "INCONCLUSIVE", "detail": "analysis error: %r\n%s" % (ex, traceback.format_exc()[-1500:])}
    out.setdefault("stats", {})["analysis_wall_s"] = round(time.time() - t0, 2)
    print(json.dumps(out))


if __name__ == "__main__":
    main()
