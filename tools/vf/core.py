"""Engine shared by all property checks: scratch management, goto-cc builds of the real
/repo sources, CBMC runs, verdict classification, native replay, known findings, evidence.

Exit-code convention of ./check:  0 held / 1 VIOLATION (replayed) / 2 INCONCLUSIVE or encoding
problem (never a verdict).
"""
import atexit
import concurrent.futures as cf
import json
import os
import re
import resource
import shutil
import subprocess
import sys
import tempfile
import threading
import time

VERIF = os.path.dirname(os.path.dirname(os.path.dirname(os.path.abspath(__file__))))
REPO = os.environ.get("VF_REPO", "/repo")
SRC = os.path.join(REPO, "spqlios")
HARNESS = os.path.join(VERIF, "harness")
SHIM = os.path.join(VERIF, "shim")
# a run on a scratch copy of the repository (VF_REPO=<copy>, used to try seeded changes in parallel) keeps its replay records and
# evidence apart: /verif/evidence is only ever written by runs against /repo itself
OUT = os.path.join(VERIF, "out") if REPO == "/repo" else os.path.join(VERIF, "out", "scratch-" + re.sub(r"[^A-Za-z0-9]", "_", REPO))
EVID = os.path.join(VERIF, "evidence") if REPO == "/repo" else os.path.join(OUT, "evidence")
KNOWN = os.path.join(VERIF, "known_findings.txt")

CPU_HOOK = ["-D__builtin_cpu_supports=vf_cpu_supports", "-include", os.path.join(HARNESS, "cpu_hook.h")]
REACH = "VF_REACH"
MAX_REPLAYS = 6
IGNORED_DESC = re.compile(r"^memcpy src/dst overlap$")

# library sources (relative to /repo/spqlios) by group; discovered from the tree at run time
GENERIC_EXCLUDE = re.compile(r"(aarch64|neon|win32)")


def log(*a):
    print(*a, flush=True)


class Scratch:
    def __init__(self):
        self.dir = tempfile.mkdtemp(prefix="vf.", dir=os.environ.get("VF_SCRATCH_BASE", "/tmp"))
        atexit.register(self.cleanup)

    def cleanup(self):
        shutil.rmtree(self.dir, ignore_errors=True)

    def sub(self, name):
        p = os.path.join(self.dir, name)
        os.makedirs(p, exist_ok=True)
        return p


def _limits(mem_gb):
    def f():
        os.setsid()
        if mem_gb is None:
            return  # sanitizer run-times reserve terabytes of address space and refuse to start under RLIMIT_AS
        b = int(mem_gb * (1 << 30))
        resource.setrlimit(resource.RLIMIT_AS, (b, b))
    return f


def run(cmd, timeout=None, mem_gb=12, cwd=None, env=None, stdin=None):
    """returns (rc, stdout, stderr, wall, timed_out)"""
    t0 = time.time()
    try:
        p = subprocess.Popen(cmd, stdout=subprocess.PIPE, stderr=subprocess.PIPE, cwd=cwd, env=env,
                             stdin=subprocess.PIPE if stdin is not None else subprocess.DEVNULL,
                             preexec_fn=_limits(mem_gb), text=True, errors="replace")
        try:
            o, e = p.communicate(stdin, timeout=timeout)
            return p.returncode, o, e, time.time() - t0, False
        except subprocess.TimeoutExpired:
            try:
                os.killpg(p.pid, 9)
            except Exception:
                p.kill()
            o, e = p.communicate()
            return -9, o, e, time.time() - t0, True
    except OSError as ex:
        return -1, "", str(ex), time.time() - t0, False


# ----------------------------------------------------------------------------- front-end fixes
# Semantics-preserving textual rewrites of constructs that CBMC's C front end rejects although
# GCC accepts them.  Each is applied to a scratch copy; listed in evidence["frontend_rewrites"].
REWRITES = [
    # `static const T X = ~Y;` inside a function: GCC folds the initialiser, CBMC wants a constant
    # expression.  Dropping `static` on a const local initialised from another const is
    # semantics-preserving.
    (re.compile(r"^(\s*)static (const \w+ \w+ = ~\w+;)", re.M), r"\1\2",
     "static const local with ~CONST initialiser -> non-static const local"),
    # `__always_inline T f(...)` (C99 inline definition, external linkage, never emitted by gcc) is defined with the same
    # name and different signatures in several units (reim_ctwiddle_avx_fma for 128/256-bit lanes); goto-cc links them as
    # one symbol.  Making the inline definitions file-local is what gcc's always_inline amounts to.
    (re.compile(r"^__always_inline ", re.M), "static __always_inline ",
     "__always_inline function definition -> static __always_inline (file-local, as after gcc inlining)"),
    # the level-by-level / block-by-block switch of the q120 NTT: made overridable so that the by-block branch (n > 1024 in the library) can be
    # executed end to end at small n with -DCHANGE_MODE_N=4|8; without the define the text means what it meant
    (re.compile(r"^#define CHANGE_MODE_N 1024$", re.M), "#ifndef CHANGE_MODE_N\n#define CHANGE_MODE_N 1024\n#endif",
     "#define CHANGE_MODE_N 1024 -> the same under #ifndef (lowered only by the by-block schedule obligations)"),
]


# `static __thread T x;` (function-local thread-local cache): cbmc's sequential mode keeps ONE instance of a thread-local object.  For the
# two-thread call-granularity histories of C12 the library is compiled with -DVF_TLS_EMUL, which turns each such object into one slot per
# emulated thread selected by the harness variable vf_tid; without the define the text is the original declaration.
TLS_RX = re.compile(r"^([ \t]+)static __thread ([^;=\n]+?)\b(\w+)((?:\[[^\]\n]*\])*);[ \t]*$", re.M)
TLS_PRELUDE = ("#ifdef VF_TLS_EMUL\nextern unsigned vf_tid;\n#define VF_NTHREADS 2\n#define VF_TLS(x) x##__tls[vf_tid]\n#else\n"
               "#define VF_TLS(x) x\n#endif\n")


def _tls_emulation(txt):
    ms = list(TLS_RX.finditer(txt))
    for m in reversed(ms):
        ind, typ, name, dims = m.group(1), m.group(2).strip(), m.group(3), m.group(4)
        end = txt.index("\n}", m.end())  # end of the enclosing function (the sources are clang-formatted)
        body = re.sub(r"(?<![\w.])(?<!->)%s\b" % re.escape(name), "VF_TLS(%s)" % name, txt[m.end():end])
        decl = "#ifdef VF_TLS_EMUL\n%sstatic %s %s__tls[VF_NTHREADS]%s;\n#else\n%sstatic __thread %s %s%s;\n#endif" % (ind, typ, name, dims, ind, typ, name, dims)
        txt = txt[:m.start()] + decl + body + txt[end:]
    return (TLS_PRELUDE + txt) if ms else txt


ALIAS_RX = re.compile(r"EXPORT\s+(?P<ret>[\w\s\*]+?)\s*\b(?P<name>\w+)\s*\((?P<params>[^;{}]*?)\)\s*"
                      r"__attribute(?:__)?\(\(alias\(\"(?P<target>\w+)\"\)\)\);", re.S)


def _alias_to_forwarder(m):
    """goto-cc ignores __attribute__((alias)): the aliased symbol would have no body (nondet
    result).  Replace the alias declaration by a forwarding definition with the same meaning."""
    params = re.sub(r"//[^\n]*", "", m.group("params"))
    names = []
    plist = []
    for prm in [x.strip() for x in params.split(",") if x.strip()]:
        prm = " ".join(prm.split())
        nm = re.search(r"(\w+)\s*$", prm).group(1)
        plist.append(prm)
        names.append("(void*)" + nm if "*" in prm else nm)
    ret = " ".join(m.group("ret").split())
    call = "%s(%s);" % (m.group("target"), ", ".join(names))
    body = call if ret == "void" else "return " + call
    return "EXPORT %s %s(%s) { %s }" % (ret, m.group("name"), ", ".join(plist), body)


class Ctx:
    def __init__(self, prop, tier, seed, jobs):
        self.prop = prop
        self.tier = tier
        self.seed = seed
        self.jobs = jobs
        self.scratch = Scratch()
        self.libcache = {}
        self.rewrites_applied = []
        self.t0 = time.time()
        self.pool = cf.ThreadPoolExecutor(max_workers=jobs)
        self.notes = []
        self.lock = threading.RLock()
        self.keylocks = {}
        self.nobj = 0

    @property
    def quick(self):
        return self.tier == "quick"

    # ---- sources
    def src_path(self, rel):
        return os.path.join(SRC, rel)

    def staged_source(self, rel):
        """path of the source to compile: the file in /repo itself, or a scratch copy if a
        front-end rewrite applies."""
        p = self.src_path(rel)
        txt = open(p).read()
        new = txt
        for rx, rep, why in REWRITES:
            new2 = rx.sub(rep, new)
            if new2 != new:
                self.rewrites_applied.append("%s: %s" % (rel, why))
                new = new2
        new2 = _tls_emulation(new)
        if new2 != new:
            self.rewrites_applied.append("%s: function-local `static __thread` objects -> one slot per emulated thread under -DVF_TLS_EMUL (unchanged otherwise)" % rel)
            new = new2
        new2 = ALIAS_RX.sub(_alias_to_forwarder, new)
        if new2 != new:
            self.rewrites_applied.append("%s: __attribute__((alias)) declaration -> forwarding definition" % rel)
            new = new2
        if new == txt:
            return p, os.path.dirname(p)
        d = self.scratch.sub("staged/" + os.path.dirname(rel))
        q = os.path.join(d, os.path.basename(rel))
        with open(q, "w") as f:
            f.write(new)
        return q, os.path.dirname(p)

    def gotocc_obj(self, rel, defs=(), shim=True, extra_inc=()):
        """compile one library source of the working tree to a goto object (cached per run)."""
        key = (rel, tuple(defs), shim, tuple(extra_inc))
        # one compile per key: concurrent obligations wait on a per-key lock (two threads writing the same object file
        # produced truncated goto binaries -> missing function bodies -> spurious nondeterministic failures)
        with self.lock:
            if key in self.libcache:
                return self.libcache[key]
            klock = self.keylocks.setdefault(key, threading.Lock())
        with klock:
            with self.lock:
                if key in self.libcache:
                    return self.libcache[key]
            return self._gotocc_obj(key, rel, defs, shim, extra_inc)

    def _gotocc_obj(self, key, rel, defs, shim, extra_inc):
        if rel.endswith(".s"):
            path, incdir = s2c_sources(self)[rel], os.path.dirname(self.src_path(rel))
        else:
            path, incdir = self.staged_source(rel)
        if shim:
            validate_shim(self)
        with self.lock:
            self.nobj += 1
            tag = "%04d" % self.nobj
        out = os.path.join(self.scratch.sub("lib"), tag + "_" + rel.replace("/", "_") + ".gb")
        cmd = ["goto-cc", "-c", "-DNDEBUG", "-D__CPROVER__"] + CPU_HOOK
        if shim:
            cmd += ["-I", SHIM]
        for i in extra_inc:
            cmd += ["-I", i]
        cmd += ["-I", incdir, "-I", SRC] + ["-D" + d for d in defs] + [path, "-o", out]
        rc, o, e, w, to = run(cmd, timeout=120)
        if rc != 0:
            raise BuildError("goto-cc failed for %s:\n%s" % (rel, (o + e)[-2000:]))
        with self.lock:
            self.libcache[key] = out
        return out


class BuildError(Exception):
    pass


def tables_dir(ctx, ms=(), ns=(), ls=()):
    """directory containing vf_tables.h dumped from a native build of the working tree (cached per (ms,ns,ls));
    ls: NTT sizes for which only the level metadata (no power table) is dumped"""
    key = ("tables", tuple(ms), tuple(ns), tuple(ls))
    with ctx.lock:
        if key in ctx.libcache:
            return ctx.libcache[key]
        ar = native_archive(ctx, (), sanitize=False)
        d = ctx.scratch.sub("tables%d" % len(ctx.libcache))
        exe = os.path.join(d, "dump_tables")
        rc, o, e, w, to = run(["gcc", "-O1", "-DNDEBUG"] + CPU_HOOK + ["-I", SRC, os.path.join(VERIF, "tools", "dump_tables.c"), ar, "-o", exe, "-lm"],
                              timeout=300, mem_gb=64)
        if rc != 0:
            raise BuildError("table dumper does not build:\n" + (o + e)[-3000:])
        rc, o, e, w, to = run([exe, "M", ",".join(str(x) for x in ms) or "1", "N", ",".join(str(x) for x in ns) or "1"] +
                              (["L", ",".join(str(x) for x in ls)] if ls else []), timeout=600, mem_gb=64)
        if rc != 0 or "VF_UNKNOWN_FUNCTION" in o or "#error" in o:
            raise BuildError("table dumper failed (rc=%d): %s %s" % (rc, e[-1000:], [l for l in o.split("\n") if "UNKNOWN" in l or "#error" in l][:5]))
        with open(os.path.join(d, "vf_tables.h"), "w") as f:
            f.write(o)
        ctx.libcache[key] = d
        ctx.notes.append("tables dumped natively from the working tree for m=%s n=%s" % (list(ms), list(ns)))
        return d


def validate_shim(ctx):
    """bit-for-bit differential test of shim/immintrin.h against the real header (native); once per run"""
    with ctx.lock:
        if "shim_ok" in ctx.libcache:
            return
        d = ctx.scratch.sub("shimtest")
        exe = os.path.join(d, "shimtest")
        rc, o, e, w, to = run(["gcc", "-O1", "-mavx2", "-mfma", "-mavx512f", "-mavx512dq", "-mavx512vl", os.path.join(VERIF, "tools", "shimtest.c"), "-o", exe, "-lm"],
                              timeout=300, mem_gb=64)
        if rc != 0:
            raise BuildError("shimtest does not build: " + (o + e)[-2000:])
        rc, o, e, w, to = run([exe], timeout=300, mem_gb=64)
        if rc != 0 or "shimtest: 0 mismatches" not in o:
            raise BuildError("ENCODING INVALID: shim/immintrin.h disagrees with the real intrinsics:\n" + o[-2000:])
        ctx.libcache["shim_ok"] = o.strip().split("\n")[-1]
        ctx.notes.append(ctx.libcache["shim_ok"])


S_KERNELS = ["reim/reim_fft16_avx_fma.s", "reim/reim_ifft16_avx_fma.s", "cplx/cplx_fft16_avx_fma.s", "cplx/cplx_ifft16_avx_fma.s"]


def s2c_sources(ctx):
    """transpile the four .s leaf kernels of the working tree to C (scratch), validate the transpiled C natively against
    the assembled .s (bit-for-bit on random/edge data); returns {rel.s: path.c}"""
    with ctx.lock:
        if "s2c" in ctx.libcache:
            return ctx.libcache["s2c"]
        d = ctx.scratch.sub("s2c")
        out = {}
        val = []
        for rel in S_KERNELS:
            base = os.path.basename(rel)[:-2]
            for suffix, lst in (("", None), ("_s2c", val)):
                rc, o, e, w, to = run(["python3", os.path.join(VERIF, "tools", "s2c.py"), os.path.join(SRC, rel), "--suffix", suffix], timeout=60)
                if rc != 0:
                    raise BuildError("s2c refused %s: %s" % (rel, e[-500:]))
                pth = os.path.join(d, base + suffix + ".c")
                open(pth, "w").write(o)
                if lst is None:
                    out[rel] = pth
                else:
                    lst.append(pth)
        exe = os.path.join(d, "s2c_validate")
        rc, o, e, w, to = run(["gcc", "-O1", "-mavx2", "-mfma", os.path.join(VERIF, "tools", "s2c_validate.c")] + val +
                              [os.path.join(SRC, r) for r in S_KERNELS] + ["-o", exe], timeout=300, mem_gb=64)
        if rc != 0:
            raise BuildError("s2c validation does not build: " + (o + e)[-2000:])
        rc, o, e, w, to = run([exe], timeout=300, mem_gb=64)
        if rc != 0 or "s2c validation: 0 mismatches" not in o:
            raise BuildError("ENCODING INVALID: transpiled .s kernels disagree with the assembled ones:\n" + o[-2000:])
        ctx.libcache["s2c"] = out
        ctx.notes.append("asm leaves transpiled by tools/s2c.py and validated natively: " + o.strip().split("\n")[-1])
        return out


class Ob:
    """one obligation = one harness instance decided by one CBMC run"""

    def __init__(self, name, harness, entry, defs=None, libs=(), unwind=40, flags=(), timeout=None,
                 libdefs=(), desc="", family=None, expect_fail=None, mem_gb=10, unwindset=None,
                 native_libs=None, extra_src=(), inc=()):
        self.name = name
        self.harness = harness  # file under /verif/harness
        self.entry = entry
        self.defs = dict(defs or {})
        self.libs = list(libs)
        self.unwind = unwind
        self.flags = list(flags)
        self.timeout = timeout
        self.libdefs = tuple(libdefs)
        self.desc = desc
        self.family = family or entry
        self.mem_gb = mem_gb
        self.unwindset = unwindset
        self.native_libs = native_libs  # sources for the native replay build (default: libs)
        self.extra_src = list(extra_src)  # generated C files (absolute paths) linked in
        self.inc = list(inc)  # extra include directories (e.g. the dumped tables)
        self.probe_inputs = None  # optional generic replay inputs (list of 64-bit words) tried when the solver's own values do not reproduce natively


class AlgOb(Ob):
    """obligation decided in two steps on the same harness instance:
      (1) bit-precise CBMC run (memory safety, unwinding, reachability; data sliced away), then
      (2) `cbmc --smt2 --outfile` export of the verification condition, re-interpreted by vcalg in an
          algebraic domain and decided by the analysis function `module:function` (which uses z3/cvc5).
    The analysis runs in its own python process (big recursion stack, no GIL contention)."""

    def __init__(self, name, harness, entry, analysis, params=None, bit_flags=("--slice-formula",), export_flags=(), skip_bit=False, dialect="--smt2", **kw):
        Ob.__init__(self, name, harness, entry, **kw)
        self.dialect = dialect  # "--z3": same VC in z3's dialect (needed when structs containing arrays are flattened: generic SMT2 export aborts)
        self.skip_bit = skip_bit  # large instances: memory/unwinding facts come from the smaller instances of the same family
        self.analysis = analysis
        self.params = dict(params or {})
        self.bit_flags = list(bit_flags)
        self.export_flags = list(export_flags)


class Res:
    def __init__(self, ob):
        self.ob = ob
        self.status = None  # PASS / FAIL / INCONCLUSIVE
        self.failed = []  # list of (property, description, function)
        self.detail = ""
        self.wall = 0.0
        self.solver_s = 0.0
        self.nprops = 0
        self.vccs = None
        self.inputs = None
        self.replay = None  # dict describing the native replay
        self.known = None
        self.alg = None  # result dict of the algebraic analysis
        self.replay_defs = None  # extra -D for the native confirmation (e.g. the two-thread ThreadSanitizer form of the harness)
        self.replay_sanitizer = None  # "thread": confirm with ThreadSanitizer instead of AddressSanitizer


CBMC_BASE = ["--no-malloc-may-fail", "--unwinding-assertions", "--drop-unused-functions",
             "--no-signed-overflow-check", "--no-undefined-shift-check", "--json-ui", "--verbosity", "8",
             "--object-bits", "12"]
if os.environ.get("VF_FIELD_SENS"):
    CBMC_BASE += ["--max-field-sensitivity-array-size", os.environ["VF_FIELD_SENS"]]


def defs_args(defs):
    out = []
    for k, v in defs.items():
        out.append("-D%s=%s" % (k, v) if v is not None else "-D%s" % k)
    return out


def build_instance(ctx, ob, idx):
    objs = [ctx.gotocc_obj(l, ob.libdefs) for l in ob.libs]
    d = ctx.scratch.sub("inst")
    out = os.path.join(d, "i%05d.gb" % idx)
    stubs = getattr(ob, "stubs", None)
    if stubs:
        # kernels replaced by harness definitions: their bodies are removed from the library objects (goto-instrument), the harness' functions
        # of the same name are linked instead; everything else in those objects is the real code
        sd = ctx.scratch.sub("stub%05d" % idx)
        new = []
        for k, o in enumerate(objs):
            o2 = os.path.join(sd, "s%d_%s" % (k, os.path.basename(o)))
            cmdi = ["goto-instrument"] + sum([["--remove-function-body", f] for f in stubs], []) + [o, o2]
            rc, oo, ee, w, to = run(cmdi, timeout=300)
            if rc != 0 or not os.path.exists(o2):
                raise BuildError("goto-instrument --remove-function-body failed for %s: %s" % (o, (oo + ee)[-800:]))
            new.append(o2)
        objs = new
    cmd = ["goto-cc", "-DNDEBUG", "-D__CPROVER__"] + CPU_HOOK + ["-I", SHIM, "-I", HARNESS, "-I", SRC] + sum([["-I", i] for i in ob.inc], []) + defs_args(ob.defs) + \
          ["-D" + x for x in ob.libdefs] + \
          [os.path.join(HARNESS, ob.harness)] + ob.extra_src + objs + ["-o", out, "--function", ob.entry]
    rc, o, e, w, to = run(cmd, timeout=300)
    if rc != 0:
        raise BuildError("goto-cc failed for harness %s (%s):\n%s" % (ob.harness, ob.name, (o + e)[-3000:]))
    return out


def parse_cbmc_json(txt):
    try:
        d = json.loads(txt)
    except Exception:
        return None, [], None, ""
    status = None
    results = []
    msgs = []
    for m in d:
        if "result" in m:
            results = m["result"]
        if "cProverStatus" in m:
            status = m["cProverStatus"]
        if m.get("messageType") in ("ERROR",) or (m.get("messageType") == "WARNING" and "unwind" in m.get("messageText", "")):
            msgs.append(m.get("messageText", ""))
    rt = None
    for m in d:
        t = m.get("messageText", "")
        mm = re.search(r"Runtime Solver: ([0-9.e+-]+)s", t)
        if mm:
            rt = (rt or 0) + float(mm.group(1))
        mm = re.search(r"Runtime decision procedure: ([0-9.e+-]+)s", t)
        if mm:
            rt = float(mm.group(1))
    return status, results, rt, "\n".join(msgs)


def cbmc_cmd(ob, binary, extra=()):
    cmd = ["cbmc", binary, "--function", ob.entry, "--unwind", str(ob.unwind)] + CBMC_BASE + ob.flags + list(extra)
    if isinstance(ob, AlgOb):
        cmd += ob.bit_flags
    if ob.unwindset:
        cmd += ["--unwindset", ob.unwindset]
    return cmd


def run_ob(ctx, ob, idx):
    r = Res(ob)
    t0 = time.time()
    try:
        binary = build_instance(ctx, ob, idx)
    except BuildError as ex:
        r.status = "INCONCLUSIVE"
        r.detail = "build: " + str(ex)
        r.wall = time.time() - t0
        return r
    timeout = ob.timeout or (300 if ctx.quick else 900)
    if isinstance(ob, AlgOb) and ob.skip_bit:
        r.status = "PASS"
        return run_alg(ctx, ob, idx, binary, r, t0)
    rc, o, e, w, to = run(cbmc_cmd(ob, binary), timeout=timeout, mem_gb=ob.mem_gb)
    r.wall = time.time() - t0
    if to:
        r.status = "INCONCLUSIVE"
        r.detail = "cbmc timeout after %ds" % timeout
        return r
    status, results, rt, msgs = parse_cbmc_json(o)
    r.solver_s = rt or 0.0
    if status is None or not results:
        r.status = "INCONCLUSIVE"
        r.detail = "cbmc gave no verdict (rc=%d): %s %s" % (rc, msgs[-500:], (e or o)[-800:])
        return r
    r.nprops = len(results)
    failed = [x for x in results if x["status"] == "FAILURE"]
    unknown = [x for x in results if x["status"] not in ("FAILURE", "SUCCESS")]
    # CBMC's memcpy model asserts ISO-C non-overlap even for dst==src; the library copies a limb onto
    # itself in supported in-place calls (identical pointers), which every libc handles and which is not
    # part of any property.  A partial overlap would change values and is caught by the value assertions.
    failed = [x for x in failed if not IGNORED_DESC.search(x.get("description", ""))]
    reach = [x for x in failed if x.get("description") == REACH]
    other = [x for x in failed if x.get("description") != REACH]
    has_reach = any(x.get("description") == REACH for x in results)
    if other:
        r.status = "FAIL"
        r.failed = [(x["property"], x.get("description", ""), x.get("sourceLocation", {}).get("function", ""),
                     x.get("sourceLocation", {}).get("line", "")) for x in other]
        # counterexample for the first failing property
        rc2, o2, e2, w2, to2 = run(cbmc_cmd(ob, binary, ["--trace", "--property", other[0]["property"]]),
                                   timeout=timeout, mem_gb=ob.mem_gb)
        r.inputs = extract_inputs(o2)
        r.wall = time.time() - t0
        return r
    if unknown:
        r.status = "INCONCLUSIVE"
        r.detail = "undecided properties: " + ", ".join(x["property"] for x in unknown[:5])
        return r
    if has_reach and not reach:
        r.status = "INCONCLUSIVE"
        r.detail = "VACUOUS: the reachability witness at the end of the harness is unreachable"
        return r
    if not has_reach:
        r.status = "INCONCLUSIVE"
        r.detail = "harness has no reachability witness"
        return r
    r.status = "PASS"
    if isinstance(ob, AlgOb):
        return run_alg(ctx, ob, idx, binary, r, t0)
    return r


def run_alg(ctx, ob, idx, binary, r, t0):
    d = ctx.scratch.sub("alg")
    smt = os.path.join(d, "i%05d.smt2" % idx)
    timeout = ob.timeout or (300 if ctx.quick else 3000)
    cmd = ["cbmc", binary, "--function", ob.entry, "--unwind", str(ob.unwind), "--no-standard-checks", "--no-malloc-may-fail",
           "--drop-unused-functions", "--max-field-sensitivity-array-size", "16384", "--object-bits", "12",
           ob.dialect, "--fpa", "--outfile", smt] + ob.export_flags
    if ob.unwindset:
        cmd += ["--unwindset", ob.unwindset]
    rc, o, e, w, to = run(cmd, timeout=timeout, mem_gb=ob.mem_gb)
    if to or rc != 0 or not os.path.exists(smt):
        r.status = "INCONCLUSIVE"
        r.detail = "VC export failed (rc=%s, memory limit %s GB) or timed out: " % (rc, ob.mem_gb) + (o + e)[-400:]
        try:
            os.remove(smt)
        except OSError:
            pass
        r.wall = time.time() - t0
        return r
    spec = {"smt2": smt, "analysis": ob.analysis, "params": ob.params, "name": ob.name, "scratch": d}
    env = dict(os.environ)
    env["PYTHONPATH"] = os.path.join(VERIF, "tools")
    rc, o, e, w, to = run(["python3-vt", "-m", "vf.algrun"], timeout=timeout, mem_gb=max(ob.mem_gb, 16), env=env, stdin=json.dumps(spec))
    try:
        if os.environ.get("VF_KEEP_SMT"):
            shutil.copy(smt, os.environ["VF_KEEP_SMT"])
        os.remove(smt)
    except OSError:
        pass
    r.wall = time.time() - t0
    if to:
        r.status = "INCONCLUSIVE"
        r.detail = "algebraic analysis timed out after %ds" % timeout
        return r
    try:
        out = json.loads(o.strip().split("\n")[-1])
    except Exception:
        r.status = "INCONCLUSIVE"
        r.detail = "analysis produced no result (rc=%d): %s" % (rc, (e or o)[-1500:])
        return r
    r.alg = out
    r.solver_s += out.get("solver_s", 0.0)
    if out["status"] == "PASS":
        r.status = "PASS"
    elif out["status"] == "FAIL":
        r.status = "FAIL"
        r.failed = [("alg", out.get("detail", "")[:500], ob.analysis, "")]
        r.inputs = out.get("replay_inputs")
        r.replay_defs = out.get("replay_defs")
        r.replay_sanitizer = out.get("replay_sanitizer")
    else:
        r.status = "INCONCLUSIVE"
        r.detail = out.get("detail", "")[:1500]
    return r


def extract_inputs(txt):
    """last assignment to every vf_in[k] in the JSON trace -> list of 64-bit words"""
    try:
        d = json.loads(txt)
    except Exception:
        return None
    vals = {}
    for m in d:
        for res in m.get("result", []):
            for s in res.get("trace", []) or []:
                if s.get("stepType") != "assignment":
                    continue
                lhs = s.get("lhs", "")
                mm = re.match(r"vf_in\[(\d+)l?\]$", lhs)
                if mm and "binary" in s.get("value", {}):
                    vals[int(mm.group(1))] = int(s["value"]["binary"], 2)
    if not vals:
        return []
    n = max(vals) + 1
    return [vals.get(i, 0) for i in range(n)]


# ----------------------------------------------------------------------------- native replay
def native_replay(ctx, ob, inputs, tag, extra_defs=None, sanitizer=None):
    """Rebuild the same harness natively (gcc, real immintrin.h, ASan) against the real sources of
    the working tree and run it on the counterexample inputs.  Returns (reproduced, text, path)."""
    d = ctx.scratch.sub("replay_" + tag)
    os.makedirs(os.path.join(OUT, "replay", ctx.prop), exist_ok=True)
    rpath = os.path.join(OUT, "replay", ctx.prop, re.sub(r"[^A-Za-z0-9_.=-]", "_", ob.name) + ".json")
    defs = dict(ob.defs)
    defs.update(extra_defs or {})
    rec = {"property": ctx.prop, "obligation": ob.name, "harness": ob.harness, "entry": ob.entry, "sanitizer": sanitizer or "address",
           "defs": defs, "libs": ob.libs, "libdefs": list(ob.libdefs), "inputs": [str(x) for x in (inputs or [])],
           "native_libs": ob.native_libs, "flags": list(ob.flags), "extra_src_note": [os.path.basename(x) for x in ob.extra_src], "inc": ob.inc}
    with open(rpath, "w") as f:
        json.dump(rec, f, indent=1)
    ok, text = replay_record(ctx, rec, d, extra_src=ob.extra_src)
    return ok, text, rpath


def all_lib_sources():
    out = []
    for sub in sorted(os.listdir(SRC)):
        p = os.path.join(SRC, sub)
        if os.path.isdir(p):
            for f in sorted(os.listdir(p)):
                if (f.endswith(".c") or f.endswith(".s")) and not GENERIC_EXCLUDE.search(f):
                    out.append(sub + "/" + f)
        elif sub.endswith(".c"):
            out.append(sub)
    return out


AVX512_FILES = ("cplx/cplx_fft_avx512.c",)
_native_lock = None


def native_archive(ctx, libdefs=(), sanitize=True):
    """the whole library of the working tree, built natively with the real <immintrin.h>
    (per-file ISA flags as in spqlios/CMakeLists.txt), as a static archive; cached per run."""
    key = ("native", tuple(libdefs), sanitize)
    with ctx.lock:
        if key in ctx.libcache:
            return ctx.libcache[key]
        d = ctx.scratch.sub("native%d" % len(ctx.libcache))
        objs = []
        jobs = []
        for rel in all_lib_sources():
            o = os.path.join(d, rel.replace("/", "_") + ".o")
            cmd = ["gcc", "-O1", "-g", "-DNDEBUG", "-fno-strict-aliasing"] + (CPU_HOOK if rel.endswith(".c") else []) + ["-I", SRC, "-c", os.path.join(SRC, rel), "-o", o]
            cmd += ["-D" + x for x in libdefs]
            if rel in AVX512_FILES:
                cmd += ["-mfma", "-mavx512f", "-mavx512vl", "-mavx512dq"]
            else:
                cmd += ["-mfma", "-mavx", "-mavx2", "-mbmi2"]
            if sanitize and rel.endswith(".c"):
                cmd += ["-fsanitize=" + ("thread" if sanitize == "thread" else "address"), "-fno-omit-frame-pointer"]
            jobs.append((rel, cmd))
            objs.append(o)
        with cf.ThreadPoolExecutor(max_workers=ctx.jobs) as ex:
            rs = list(ex.map(lambda j: (j[0],) + run(j[1], timeout=300, mem_gb=64), jobs))
        for rel, rc, o, e, w, to in rs:
            if rc != 0:
                raise BuildError("native gcc failed for %s:\n%s" % (rel, (o + e)[-2000:]))
        ar = os.path.join(d, "libspq.a")
        rc, o, e, w, to = run(["ar", "rcs", ar] + objs, timeout=120, mem_gb=64)
        if rc != 0:
            raise BuildError("ar failed: " + e)
        ctx.libcache[key] = ar
        return ar


def native_build(ctx, rec, d, extra_src=(), sanitize=True):
    exe = os.path.join(d, "replay.exe")
    try:
        ar = native_archive(ctx, tuple(rec.get("libdefs", [])), "thread" if rec.get("sanitizer") == "thread" else sanitize)
    except BuildError as ex:
        return None, str(ex)
    cmd = ["gcc", "-O1", "-g", "-DNDEBUG", "-DVF_NATIVE", "-mavx2", "-mfma", "-mbmi2", "-fno-strict-aliasing"] + CPU_HOOK + \
          ["-pthread", "-I", HARNESS, "-I", SRC] + sum([["-I", i] for i in rec.get("inc", [])], [])
    if rec.get("sanitizer") == "thread":
        sanitize = "thread"
    if sanitize:
        cmd += ["-fsanitize=" + ("thread" if sanitize == "thread" else "address"), "-fno-omit-frame-pointer"]
    cmd += defs_args(rec["defs"]) + ["-D" + x for x in rec.get("libdefs", [])]
    cmd += ["-DVF_ENTRY=" + rec["entry"], os.path.join(HARNESS, rec["harness"]),
            os.path.join(HARNESS, "native_main.c")] + list(extra_src) + [ar, "-o", exe, "-lm"]
    rc, o, e, w, to = run(cmd, timeout=600, mem_gb=64)
    if rc != 0:
        return None, "native build failed:\n" + (o + e)[-3000:]
    return exe, ""


def replay_record(ctx, rec, d, extra_src=()):
    # stand-alone replays (./check Cxx --replay file): the table directory recorded at check time was scratch; dump the tables again
    if any(not os.path.isdir(i) for i in rec.get("inc", [])):
        rec = dict(rec)
        rec["inc"] = [tables_dir(ctx, (1, 2, 4, 8, 16, 32, 64), (1, 2, 4, 8, 16, 32, 64))]
    exe, err = native_build(ctx, rec, d, extra_src)
    if exe is None:
        return None, err
    inp = os.path.join(d, "inputs.txt")
    with open(inp, "w") as f:
        for x in rec["inputs"]:
            f.write("%s\n" % x)
    env = dict(os.environ)
    leaks = "--memory-leak-check" in rec.get("flags", [])
    env["ASAN_OPTIONS"] = "detect_leaks=%d:abort_on_error=0:halt_on_error=1" % (1 if leaks else 0)
    env["TSAN_OPTIONS"] = "halt_on_error=1:report_signal_unsafe=0"
    rc, o, e, w, to = run([exe, inp], timeout=120, mem_gb=None, env=env)
    text = (o + e)[-4000:]
    if rec.get("sanitizer") == "thread":
        # a ThreadSanitizer confirmation counts only if the run-time started and reported a race (or the harness' own assertion failed)
        if to:
            return None, "ThreadSanitizer run did not terminate\n" + text
        return ("ThreadSanitizer: data race" in text or "VF_ASSERT_FAILED" in text), text
    if to:
        return True, "native run did not terminate within 60 s (runaway loop)\n" + text
    if "VF_ASSUME_FAILED" in text:
        return None, "replay inputs violate a harness assumption (encoding mismatch)\n" + text
    if rc != 0 or "VF_ASSERT_FAILED" in text or "AddressSanitizer" in text or "ThreadSanitizer: data race" in text or "LeakSanitizer" in text:
        return True, text
    return False, text


# ----------------------------------------------------------------------------- known findings
def load_known():
    known, fixed = [], []
    if os.path.exists(KNOWN):
        for line in open(KNOWN):
            line = line.strip()
            if not line or line.startswith("#"):
                continue
            mm = re.match(r"known: property=(\S+) match=(\S+) (.*)$", line)
            if mm:
                known.append({"property": mm.group(1), "match": mm.group(2), "what": mm.group(3)})
            mm = re.match(r"fixed: property=(\S+) (\S+) (.*)$", line)
            if mm:
                fixed.append({"property": mm.group(1), "commit": mm.group(2), "what": mm.group(3)})
    return known, fixed


def match_known(known, prop, res):
    """a known finding matches an obligation name (regex, full match) - i.e. the specific
    shape/call site; anything else failing is a new violation."""
    for k in known:
        if k["property"] == prop and re.fullmatch(k["match"], res.ob.name):
            return k
    return None


# ----------------------------------------------------------------------------- driver
def run_all(ctx, obs, progress=True):
    results = [None] * len(obs)
    futs = {}
    for i, ob in enumerate(obs):
        futs[ctx.pool.submit(run_ob, ctx, ob, i)] = i
    done = 0
    for f in cf.as_completed(futs):
        i = futs[f]
        try:
            results[i] = f.result()
        except Exception as ex:  # engine error: inconclusive, never a verdict
            r = Res(obs[i])
            r.status = "INCONCLUSIVE"
            r.detail = "engine exception: %r" % (ex,)
            results[i] = r
        done += 1
        r = results[i]
        if progress and (r.status != "PASS" or done % 50 == 0 or done == len(obs)):
            log("  [%d/%d] %s %s %.1fs %s" % (done, len(obs), r.status, r.ob.name, r.wall,
                                            (r.detail or "; ".join("%s@%s:%s" % (x[1], x[2], x[3]) for x in r.failed[:3]))[:300]))
    return results


def _dbits(x):
    import struct
    return struct.unpack("<Q", struct.pack("<d", float(x)))[0]


# generic operand words for the native probe run of an obligation that carries none of its own: small distinct integers, the bit patterns of small
# distinct doubles (harnesses read their inputs as 64-bit words and interpret them as the operand type), and zero / all-ones alternating
DEFAULT_PROBES = [[str((i * 2654435761 + 12345) % 997 + 1) for i in range(2048)],
                  [str(_dbits(((37 * i + 11) % 101) - 50.0 + 0.5 * (i % 2))) for i in range(2048)],
                  [str(0 if (i // 4) % 2 else (1 << 64) - 1) for i in range(2048)]]


def _probe_list(ob):
    """probe operand vectors of an obligation: its own (one vector or a list of vectors) or the generic ones"""
    p = getattr(ob, "probe_inputs", None)
    if not p:
        return DEFAULT_PROBES
    return list(p) if isinstance(p[0], (list, tuple)) else [p]


def finish(ctx, results, meta, extra_results=()):
    """classify, replay, print verdict lines, write evidence; returns exit code.

    extra_results: list of dicts {name,status,detail,wall,solver_s,desc,replay,reproduced} from
    non-CBMC deciders (vcalg / SMT) already classified by the property module."""
    known, fixed = load_known()
    n_pass = n_fail = n_inc = n_known = 0
    violations = []
    inconcl = []
    known_hit = {}
    more_failed = []
    fam = {}
    for r in results:
        fam.setdefault(r.ob.family, [0, 0])
        fam[r.ob.family][0] += 1
        if r.status == "PASS":
            n_pass += 1
            fam[r.ob.family][1] += 1
        elif r.status == "FAIL":
            k = match_known(known, ctx.prop, r)
            if k:
                n_known += 1
                known_hit.setdefault(k["match"], (k, []))[1].append(r.ob.name)
                continue
            if len(violations) >= MAX_REPLAYS:
                more_failed.append(r)
                continue
            ok, text, rpath = native_replay(ctx, r.ob, r.inputs, "%d" % len(violations), r.replay_defs, r.replay_sanitizer)
            if not ok:
                # the solver's input values may be degenerate for the native oracle (e.g. all-zero operands when the failing assertion is a
                # harness-side contract check, or a sliced trace that carries no data): retry on the obligation's probe vector(s) before calling it an
                # encoding mismatch
                for pi, probe in enumerate(_probe_list(r.ob)):
                    ok2, text2, rpath2 = native_replay(ctx, r.ob, probe, "%dp%d" % (len(violations), pi), r.replay_defs, r.replay_sanitizer)
                    if ok2:
                        ok, text, rpath = ok2, text2, rpath2
                        break
            r.replay = {"reproduced": ok, "path": rpath, "text": text[-1500:]}
            if ok:
                n_fail += 1
                violations.append(r)
            else:
                # not reproduced natively -> encoding problem (or UB-level finding): never a verdict
                n_inc += 1
                r.status = "INCONCLUSIVE"
                r.detail = "ENCODING-MISMATCH: solver counterexample did not reproduce natively: " + \
                           "; ".join(x[1] for x in r.failed[:3]) + " | " + text[-300:]
                inconcl.append(r)
        else:
            # The solver side gave no verdict (time, memory, a construct outside the interpreted fragment - e.g. accesses through a pointer made from an
            # integer).  If the obligation carries a generic probe vector, the native harness (real code + exact oracle) is run on it: a failure there is a
            # violation of the property demonstrated on the real code, reported as such and labelled as found by the probe, not by the solver.
            probes = _probe_list(r.ob)
            ok = False
            if len(violations) < MAX_REPLAYS:  # also when the symbolic build failed (e.g. an intrinsic the shim does not model): the native build has the real headers
                for pi, probe in enumerate(probes):
                    ok, text, rpath = native_replay(ctx, r.ob, probe, "%dq%d" % (len(violations), pi))
                    if ok:
                        break
                if ok:
                    r.status = "FAIL"
                    r.failed = [("probe", "solver side inconclusive (%s); the native harness fails on the obligation's probe operands" % (r.detail or "")[:160], "", "")]
                    r.replay = {"reproduced": True, "path": rpath, "text": text[-1500:], "found_by": "native probe after an inconclusive solver run"}
                    n_fail += 1
                    violations.append(r)
                    continue
            n_inc += 1
            inconcl.append(r)
    for x in extra_results:
        if x["status"] == "PASS":
            n_pass += 1
        elif x["status"] == "FAIL":
            n_fail += 1
        else:
            n_inc += 1
    for m, (k, names) in known_hit.items():
        log("KNOWN-FINDING: property=%s %s (obligations: %s)" % (ctx.prop, k["what"], ", ".join(names[:4]) + (" ..." if len(names) > 4 else "")))
    for r in violations:
        log("VIOLATION property=%s replay=%s" % (ctx.prop, r.replay["path"]))
        log("  obligation %s: %s" % (r.ob.name, "; ".join("%s (%s:%s)" % (x[1], x[2], x[3]) for x in r.failed[:4])))
        log("  native replay: " + r.replay["text"].strip().replace("\n", "\n    ")[-800:])
    if more_failed:
        log("  ... and %d more failing obligations (solver counterexample found, native replay skipped after %d confirmed): %s" %
            (len(more_failed), MAX_REPLAYS, ", ".join(r.ob.name for r in more_failed[:20])))
        n_fail += len(more_failed)
    for x in extra_results:
        if x["status"] == "FAIL":
            log("VIOLATION property=%s replay=%s" % (ctx.prop, x.get("replay", "")))
            log("  obligation %s: %s" % (x["name"], x.get("detail", "")[:800]))
    for r in inconcl:
        log("INCONCLUSIVE property=%s obligation=%s %s" % (ctx.prop, r.ob.name, r.detail[:600]))
    for x in extra_results:
        if x["status"] not in ("PASS", "FAIL"):
            log("INCONCLUSIVE property=%s obligation=%s %s" % (ctx.prop, x["name"], x.get("detail", "")[:600]))

    total = len(results) + len(extra_results)
    wall = time.time() - ctx.t0
    solver = sum(r.solver_s for r in results) + sum(x.get("solver_s", 0) for x in extra_results)
    samples = []
    lastfam = {}
    for i, r in enumerate(results):
        if r.status == "PASS":
            lastfam[r.ob.family] = i  # the last (usually largest) instance of each family is written out
    for i, r in enumerate(results):
        if lastfam.get(r.ob.family) == i:
            samples.append({"obligation": r.ob.name, "harness": r.ob.harness + ":" + r.ob.entry,
                            "shape": r.ob.defs, "what": r.ob.desc, "cbmc_properties": r.nprops,
                            "wall_s": round(r.wall, 2), **({"algebraic": r.alg.get("stats", {})} if r.alg else {})})
    for x in extra_results[:6]:
        samples.append({"obligation": x["name"], "what": x.get("desc", ""), "status": x["status"],
                        "wall_s": round(x.get("wall", 0), 2)})
    ev = {
        "property_id": ctx.prop,
        "tier": ctx.tier,
        "seed": ctx.seed,
        "level": "model_checking",
        "coverage": {
            "obligations": total,
            "discharged": n_pass,
            "known_findings_matched": n_known,
            "inconclusive": n_inc,
            "evaluations": total,
            "distinct_nontrivial": len(set([r.ob.name for r in results] + [x["name"] for x in extra_results])),
            "rule": "one obligation = one harness instance (real functions + concrete shape parameters, all data "
                    "nondeterministic) decided by one solver run; distinct = distinct (harness, shape) name; every "
                    "instance carries an end-of-harness reachability witness that must be FAILED, so a vacuous "
                    "instance is counted as inconclusive, not discharged",
            "samples": samples[:12],
            "checker_cmd": "cbmc <inst.gb> --function <entry> --unwind N " + " ".join(CBMC_BASE),
            "trusted_base": ["cbmc 6.11.0 (symex, SAT back end)", "goto-cc C front end",
                             "shim/immintrin.h (validated natively on each run that uses it)"],
            "families": {k: {"instances": v[0], "discharged": v[1]} for k, v in fam.items()},
            "solver_s": round(solver, 2),
            "frontend_rewrites": sorted(set(ctx.rewrites_applied)),
            "ignored_cbmc_checks": ["memcpy src/dst overlap (ISO-C UB for dst==src; identical-pointer self copy in supported in-place calls)",
                                    "signed-overflow / undefined-shift (GCC-defined behaviour the library relies on; see DESIGN.md 2.1)"],
            "exhaustive": False,
        },
        "assumptions": meta.get("assumptions", []) + ctx.notes,
        "wall_s": round(wall, 2),
        "violations": n_fail,
    }
    for k, v in meta.items():
        if k not in ("assumptions",):
            ev["coverage"][k] = v
    evdir = EVID if not getattr(ctx, "filtered", False) else os.path.join(OUT, "partial-evidence")
    os.makedirs(evdir, exist_ok=True)
    with open(os.path.join(evdir, ctx.prop + ".json"), "w") as f:
        json.dump(ev, f, indent=1)
    if ctx.tier == "thorough" and not getattr(ctx, "filtered", False):
        # a later quick run rewrites evidence/<id>.json: keep the record of the last complete thorough run next to it
        os.makedirs(os.path.join(EVID, "thorough"), exist_ok=True)
        with open(os.path.join(EVID, "thorough", ctx.prop + ".json"), "w") as f:
            json.dump(ev, f, indent=1)
    slow = sorted(results, key=lambda r: -r.wall)[:5]
    log("  slowest: " + ", ".join("%s %.0fs" % (r.ob.name, r.wall) for r in slow))
    log("SUMMARY property=%s tier=%s obligations=%d discharged=%d known=%d violations=%d inconclusive=%d wall=%.1fs solver=%.1fs" %
        (ctx.prop, ctx.tier, total, n_pass, n_known, n_fail, n_inc, wall, solver))
    if n_fail:
        return 1
    if n_inc:
        return 2
    return 0
