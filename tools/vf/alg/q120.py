"""C10 / C04 / C03: q120 arithmetic as integer polynomials with rigorous intervals (vcalg IntDom).

Two kinds of facts per harness instance:
  * no-wrap / operand-width side conditions collected while translating the bit-vector operations (C04);
  * congruence of every output lane modulo its prime with the specification polynomial (C10, C03), checked as a
    polynomial identity D == q*W with an explicit integer witness W, the identity being cross-checked by cvc5 (QF_NIA).
"""
import random
import subprocess
import time

from vf import vcalg


def eval_int(smt2, in_bases, out_base, ranges):
    """ranges: {(base, index): (lo, hi)} for harness inputs.  returns (dom, ins, outs)"""
    vc = vcalg.VC(smt2)
    dom = vcalg.IntDom()
    ev = vcalg.Evaluator(vc, dom)
    ins = {}
    for base in in_bases:
        fin = vc.final_versions(base)
        for i in sorted(fin):
            p = ev.ev(fin[i])
            if not (isinstance(p, vcalg.IPoly) and len(p.t) == 1 and list(p.t.values()) == [1] and len(list(p.t)[0]) == 1):
                raise vcalg.Unsupported("harness input %s[%d] is not a free symbol" % (base, i))
            a = list(p.t)[0][0]
            ins[(base, i)] = a
            if (base, i) in ranges:
                dom.ranges[a] = ranges[(base, i)]
    dom.obl_ok = 0
    dom.open = []
    ev = vcalg.Evaluator(vc, dom)  # fresh memo: atom ranges are now the declared ones
    outs = {}
    fin = vc.final_versions(out_base)
    for i in sorted(fin):
        outs[i] = ev.ev(fin[i])
    return vc, dom, ins, outs


def poly_mod(t, q):
    out = {}
    for m, c in t.items():
        c %= q
        if c:
            out[m] = c
    return out


def subst(t, a, repl):
    """substitute atom a by polynomial repl (dict) in t"""
    out = {}
    for m, c in t.items():
        n = m.count(a)
        if not n:
            out[m] = out.get(m, 0) + c
            continue
        rest = tuple(x for x in m if x != a)
        p = {rest: c}
        for _ in range(n):
            p = vcalg.ip_mul(p, repl)
        for mm, cc in p.items():
            out[mm] = out.get(mm, 0) + cc
    return {m: c for m, c in out.items() if c}


def smt_poly(t, names):
    if not t:
        return "0"
    terms = []
    for m, c in sorted(t.items()):
        fac = [str(c) if c >= 0 else "(- %d)" % (-c)] + [names[a] for a in m]
        terms.append(fac[0] if len(fac) == 1 else "(* %s)" % " ".join(fac))
    return terms[0] if len(terms) == 1 else "(+ %s)" % " ".join(terms)


def cvc5_identity(lhs, rhs, natoms, timeout_s=60):
    """ask cvc5 (QF_NIA) whether lhs != rhs is satisfiable over the integers"""
    names = {i: "a%d" % i for i in range(natoms)}
    used = sorted({a for t in (lhs, rhs) for m in t for a in m})
    script = ["(set-logic QF_NIA)"] + ["(declare-const %s Int)" % names[a] for a in used]
    script.append("(assert (distinct %s %s))" % (smt_poly(lhs, names), smt_poly(rhs, names)))
    script.append("(check-sat)")
    t0 = time.time()
    p = subprocess.run(["cvc5", "--tlimit=%d" % (timeout_s * 1000)], input="\n".join(script), capture_output=True, text=True)
    out = (p.stdout + p.stderr).strip()
    return out.split("\n")[0] if out else "unknown", time.time() - t0


def product_spec(form, ell, ins):
    """{output index: (lane k, [(x atom, y0 atom)], [(y1 atom, y0 atom, k)])}"""
    spec = {}
    nres = 4 if form <= 2 else (8 if form == 3 else 16)
    for r in range(nres):
        k, blk = r % 4, r // 4
        terms = []
        for i in range(ell):
            if form <= 1:
                xa, ya = ins[("VF_X", 4 * i + k)], ins[("VF_Y", 4 * i + k)]
            elif form == 2:
                xa, ya = ins[("VF_X", 4 * i + k)], ins[("VF_Y", 8 * i + 2 * k)]
            elif form == 3:
                xa, ya = ins[("VF_X", 8 * i + 4 * blk + k)], ins[("VF_Y", 16 * i + 8 * blk + 2 * k)]
            else:
                xa, ya = ins[("VF_X", 8 * i + 4 * (blk % 2) + k)], ins[("VF_Y", 32 * i + 8 * blk + 2 * k)]
            terms.append((xa, ya))
        spec[r] = (k, terms)
    return spec


def check_product(smt2, params, spec_):
    form, ell, qs = params["form"], params["ell"], params["primes"]
    y32 = form >= 2
    nx = (4 if form <= 2 else 8) * ell
    ny = {0: 4, 1: 4, 2: 8, 3: 16, 4: 32}[form] * ell
    ranges = {}
    M32, M64 = (1 << 32) - 1, (1 << 64) - 1
    for i in range(nx):
        ranges[("VF_X", i)] = (0, M32 if form == 0 else M64)
    for i in range(ny):
        ranges[("VF_Y", i)] = (0, M32 if (form == 0 or y32) else M64)
    t0 = time.time()
    vc, dom, ins, outs = eval_int(smt2, ["VF_X", "VF_Y"] if ell else [], "VF_OUT", ranges)
    stats = {"vc_definitions": len(vc.defs), "bv_operations_interpreted": dom.nops, "atoms": len(dom.names), "input_atoms": len(ins),
             "nowrap_obligations_discharged_by_intervals": dom.obl_ok, "nowrap_obligations_open": len(dom.open), "form": form, "ell": ell,
             "max_output_bits": max([o.hi.bit_length() for o in outs.values()] or [0])}
    solver_s = 0.0
    if dom.open:
        # a wrap that interval reasoning cannot exclude: try the all-maximal operand pattern as a concrete witness
        return {"status": "FAIL", "stats": stats, "detail": "lazy arithmetic may exceed its word: " + "; ".join(dom.open[:3]),
                "replay_inputs": [str(M32 if (form == 0) else M64)] * nx + [str(M32 if (form == 0 or y32) else M64)] * ny}
    spec = product_spec(form, ell, ins) if ell else {r: (r % 4, []) for r in outs}
    checked = 0
    for r, out in sorted(outs.items()):
        k, terms = spec[r]
        q = qs[k]
        d = dict(out.t)
        for (xa, ya) in terms:
            m = tuple(sorted((xa, ya)))
            d[m] = d.get(m, 0) - 1
        d = {m: c for m, c in d.items() if c}
        if y32:
            # c layout: the odd 32-bit words are (even word * 2^32) mod q -> congruent substitution y1 := 2^32 * y0
            for i in range(0, ny, 2):
                a1, a0 = ins[("VF_Y", i + 1)], ins[("VF_Y", i)]
                if ((i // 2) % 4) == k:
                    d = subst(d, a1, {(a0,): (1 << 32) % q})
        rem = poly_mod(d, q)
        if rem:
            # not congruent as a polynomial identity: look for a concrete separating input
            rnd = random.Random(12345 + r)
            for trial in range(200):
                assign = {}
                vals = {}
                for (base, i), a in ins.items():
                    lo, hi = dom.ranges[a]
                    v = hi if trial == 0 else (rnd.choice([hi, lo, hi - 1, rnd.randint(lo, hi), rnd.randint(lo, hi)]))
                    vals[(base, i)] = v
                if y32:
                    for i in range(0, ny, 2):
                        qq = qs[(i // 2) % 4]
                        vals[("VF_Y", i + 1)] = (vals[("VF_Y", i)] << 32) % qq
                for key, a in ins.items():
                    assign[a] = vals[key]
                got = vcalg.int_concrete(dom, out.t, assign) % q
                want = sum(assign[xa] * assign[ya] for xa, ya in terms) % q
                if got != want:
                    rep = [str(vals[("VF_X", i)]) for i in range(nx)] + [str(vals[("VF_Y", i)] if (not y32 or i % 2 == 0) else 0) for i in range(ny)]
                    return {"status": "FAIL", "stats": stats, "replay_inputs": rep,
                            "detail": "output lane %d is not congruent to sum x_i*y_i modulo %d (separating input found by evaluating the exported terms)" % (r, q)}
            return {"status": "INCONCLUSIVE", "stats": stats,
                    "detail": "output lane %d: congruence is not a polynomial identity (%d residual monomials) but no separating input was found" % (r, len(rem))}
        # witness form: d == q * W  (pure polynomial identity over the integers), cross-checked by cvc5
        W = {m: c // q for m, c in d.items()}
        if r in (0, len(outs) - 1):
            lhs = d
            rhs = {m: c * q for m, c in W.items() if c}
            res, dt = cvc5_identity(lhs, rhs, len(dom.names))
            solver_s += dt
            if res != "unsat":
                return {"status": "INCONCLUSIVE", "stats": stats, "detail": "cvc5 did not confirm the witness identity for lane %d: %s" % (r, res)}
        checked += 1
    stats["lanes_congruent"] = checked
    stats["analysis_s"] = round(time.time() - t0, 2)
    return {"status": "PASS", "stats": stats, "solver_s": solver_s}


# ------------------------------------------------------------------------------------------------- conversions
def _ground(cond, what):
    if not cond:
        raise AssertionError(what)


def check_conv(smt2, params, spec_):
    conv, neg, qs = params["conv"], params.get("neg", 0), params["primes"]
    Q = qs[0] * qs[1] * qs[2] * qs[3]
    M32, M63, M64 = (1 << 32) - 1, (1 << 63) - 1, (1 << 64) - 1
    nin = {0: 1, 1: 1, 6: 1, 2: 4, 5: 4, 3: 8, 4: 8}[conv]
    ranges = {("VF_X", i): (0, M63 if conv in (0, 1, 6) else (M32 if conv == 4 else M64)) for i in range(nin)}
    vc = vcalg.VC(smt2)
    dom = vcalg.IntDom()
    dom.allow_signed = True
    ev = vcalg.Evaluator(vc, dom)
    ins = {}
    fin = vc.final_versions("VF_X")
    for i in sorted(fin):
        p = ev.ev(fin[i])
        a = list(p.t)[0][0]
        ins[i] = a
        dom.ranges[a] = ranges[("VF_X", i)]
    dom.obl_ok, dom.open = 0, []
    ev = vcalg.Evaluator(vc, dom)
    outs = {i: ev.ev(n) for i, n in sorted(vc.final_versions("VF_OUT").items())}
    stats = {"vc_definitions": len(vc.defs), "bv_operations_interpreted": dom.nops, "atoms": len(dom.names), "conv": conv, "neg": neg,
             "range_obligations_discharged": dom.obl_ok, "range_obligations_open": len(dom.open)}
    if dom.open:
        return {"status": "FAIL", "stats": stats, "detail": "arithmetic may leave its word: " + "; ".join(dom.open[:3]),
                "replay_inputs": [str(M63 if conv in (0, 1, 6) else M64)] * nin}

    def cong(poly, spec, q, what):
        d = poly_mod(vcalg.ip_add(poly, spec, -1), q)
        if d:
            raise AssertionError("%s: not congruent modulo %d as a polynomial identity (%d residual monomials)" % (what, q, len(d)))

    try:
        if conv in (0, 1, 6):
            v = ins[0]
            xval = {(v,): 1, (): -(1 << 63)} if neg else {(v,): 1}  # the signed input as a polynomial
        if conv == 0:
            for k in range(4):
                cong(outs[k].t, xval, qs[k], "b_from_znx64 lane %d" % k)
                _ground(outs[k].lo >= 0 and outs[k].hi <= M64, "lane range")
        elif conv == 1:
            for k in range(4):
                cong(outs[2 * k].t, xval, qs[k], "c_from_znx64 word %d" % (2 * k))
                _ground(0 <= outs[2 * k].lo and outs[2 * k].hi < qs[k], "c_from_znx64: first word reduced below q (interval [%d,%d])" % (outs[2 * k].lo, outs[2 * k].hi))
                cong(outs[2 * k + 1].t, vcalg.ip_scale(outs[2 * k].t, 1 << 32), qs[k], "c_from_znx64 word %d" % (2 * k + 1))
                _ground(0 <= outs[2 * k + 1].lo and outs[2 * k + 1].hi < qs[k], "second word reduced below q")
        elif conv == 2:
            for k in range(4):
                cong(outs[2 * k].t, {(ins[k],): 1}, qs[k], "c_from_b word %d" % (2 * k))
                _ground(outs[2 * k].hi < qs[k], "first word below q")
                cong(outs[2 * k + 1].t, vcalg.ip_scale(outs[2 * k].t, 1 << 32), qs[k], "c_from_b word %d" % (2 * k + 1))
                _ground(outs[2 * k + 1].hi < qs[k], "second word below q")
        elif conv == 3:
            for k in range(4):
                cong(outs[k].t, {(ins[k],): 1, (ins[4 + k],): 1}, qs[k], "add_bbb lane %d" % k)
                _ground(outs[k].hi <= M64, "add_bbb: no wrap")
        elif conv == 4:
            for k in range(4):
                cong(outs[2 * k].t, {(ins[k],): 1, (ins[4 + k],): 1}, qs[k], "add_ccc word %d" % (2 * k))
                cong(outs[2 * k + 1].t, vcalg.ip_scale(outs[2 * k].t, 1 << 32), qs[k], "add_ccc word %d" % (2 * k + 1))
                _ground(outs[2 * k].hi < qs[k] and outs[2 * k + 1].hi < qs[k], "add_ccc: words reduced below q")
        elif conv in (5, 6):
            r = ev.ev(vc.final_versions("VF_R128")[0])
            stats["result_interval"] = [str(r.lo), str(r.hi)]
            for k in range(4):
                spec = {(ins[k],): 1} if conv == 5 else xval
                cong(r.t, spec, qs[k], "b_to_znx128 vs lane %d" % k)
            _ground(2 * r.lo > -Q and 2 * r.hi <= Q, "b_to_znx128: centered representative in (-Q/2, Q/2] (interval [%d,%d])" % (r.lo, r.hi))
            # ground facts about the CRT constants follow from the congruences above holding for all lane values
    except AssertionError as ex:
        return {"status": "FAIL", "stats": stats, "detail": str(ex),
                "replay_inputs": [str(x) for x in ([0] if nin == 1 else [M64, 1, qs[2] - 1, qs[3]] * (nin // 4))]}
    return {"status": "PASS", "stats": stats}


# ------------------------------------------------------------------------------------------------- NTT end to end
def check_ntt(smt2, params, spec_):
    n, direction, qs, omegas = params["n"], params["dir"], params["primes"], params["omegas"]
    M64 = (1 << 64) - 1
    ranges = {("VF_X", i): (0, M64) for i in range(4 * n)}
    t0 = time.time()
    vc, dom, ins, outs = eval_int(smt2, ["VF_X"], "VF_OUT", ranges)
    stats = {"vc_definitions": len(vc.defs), "bv_operations_interpreted": dom.nops, "atoms": len(dom.names), "n": n, "dir": direction,
             "nowrap_obligations_discharged_by_intervals": dom.obl_ok, "nowrap_obligations_open": len(dom.open),
             "max_output_bits": max(o.hi.bit_length() for o in outs.values()), "eval_s": round(time.time() - t0, 2)}
    if len(outs) != 4 * n or len(ins) != 4 * n:
        return {"status": "INCONCLUSIVE", "stats": stats, "detail": "expected %d lanes, found %d inputs / %d outputs" % (4 * n, len(ins), len(outs))}
    allmax = [str(M64)] * (4 * n)
    if dom.open:
        return {"status": "FAIL", "stats": stats, "detail": "lazy arithmetic may exceed its word: " + "; ".join(dom.open[:3]), "replay_inputs": allmax}
    inv = {a: key[1] for key, a in ins.items()}
    exps = {}
    for k in range(4):
        q = qs[k]
        w = pow(omegas[k], (1 << 16) // n, q)  # primitive 2n-th root of unity
        if n > 1 and (pow(w, n, q) != q - 1):
            return {"status": "INCONCLUSIVE", "stats": stats, "detail": "omega is not a primitive 2n-th root modulo %d" % q}
        powidx = {pow(w, e, q): e for e in range(2 * n)}
        ninv = pow(n, -1, q)
        seen = set()
        for p in range(n):
            o = outs[4 * p + k]
            coef = {}
            for m, c in o.t.items():
                c %= q
                if not c:
                    continue
                if len(m) == 1 and m[0] in inv:
                    idx = inv[m[0]]
                    if idx % 4 != k:
                        return {"status": "FAIL", "stats": stats, "replay_inputs": allmax,
                                "detail": "output (%d, prime %d) depends on input lane %d of another prime" % (p, k, idx)}
                    coef[idx // 4] = c
                else:
                    return {"status": "FAIL", "stats": stats, "replay_inputs": allmax,
                            "detail": "output (%d, prime %d) is not congruent to a linear form of the inputs: residual monomial %s with coefficient %d mod q"
                                      % (p, k, [dom.names[a] for a in m], c)}
            if direction == 2:
                if coef != {p: 1}:
                    return {"status": "FAIL", "stats": stats, "replay_inputs": [str((i * 2654435761 + 12345) & M64) for i in range(4 * n)],
                            "detail": "intt(ntt(x)) at position %d prime %d is %s, not x" % (p, k, dict(list(coef.items())[:4]))}
                continue
            # evaluation-map structure: coefficient of x_j is w^(e_p*j) (forward) resp. n^-1 * w^(-e_j*p)... checked per output row / column
            if direction == 0:
                c1 = coef.get(1, 0) if n > 1 else w
                e = powidx.get(c1)
                if coef.get(0, 0) != 1 or e is None or e % 2 == 0 or e in seen:
                    return {"status": "FAIL", "stats": stats, "replay_inputs": [str((i * 2654435761 + 12345) & M64) for i in range(4 * n)],
                            "detail": "forward output %d prime %d: coefficient of x_1 is not an unused odd power of omega" % (p, k)}
                seen.add(e)
                for j in range(n):
                    if coef.get(j, 0) != pow(w, (e * j) % (2 * n), q):
                        return {"status": "FAIL", "stats": stats, "replay_inputs": [str((i * 2654435761 + 12345) & M64) for i in range(4 * n)],
                                "detail": "forward output %d prime %d: coefficient of x_%d is not omega^(%d*%d)" % (p, k, j, e, j)}
                exps[(k, p)] = e
            else:
                # inverse: output p = n^-1 * sum_j y_j * w^(-e_j * p): each column j must be geometric in p with an odd exponent
                pass
        if direction == 1:
            used = set()
            for j in range(n):
                col = [outs[4 * p + k].t.get((ins[("VF_X", 4 * j + k)],), 0) % q for p in range(n)]
                if col[0] != ninv:
                    return {"status": "FAIL", "stats": stats, "replay_inputs": allmax, "detail": "inverse: column %d prime %d does not start with n^-1" % (j, k)}
                if n > 1:
                    ratio = (col[1] * n) % q
                    e = powidx.get(ratio)
                    if e is None or e % 2 == 0 or e in used:
                        return {"status": "FAIL", "stats": stats, "replay_inputs": allmax,
                                "detail": "inverse: column %d prime %d is not n^-1 * (odd power of omega)^p with a fresh exponent" % (j, k)}
                    used.add(e)
                    for p in range(n):
                        if col[p] != (ninv * pow(w, (e * p) % (2 * n), q)) % q:
                            return {"status": "FAIL", "stats": stats, "replay_inputs": allmax, "detail": "inverse: column %d prime %d not geometric at row %d" % (j, k, p)}
    stats["analysis_s"] = round(time.time() - t0, 2)
    return {"status": "PASS", "stats": stats}


# ------------------------------------------------------------------------------------------------- products at ell = 10000
def check_product_big(smt2, params, spec_):
    """h_prod_big: operands are uninitialised local arrays; one streaming pass over the (large) exported VC."""
    import re
    form, ell, qs = params["form"], params["ell"], params["primes"]
    y32 = form >= 2
    M32, M64 = (1 << 32) - 1, (1 << 64) - 1
    dom = vcalg.IntDom()

    def arr_range(name, idx, width):
        if "xbig" in name:
            return (0, M32 if form == 0 else M64)
        if "ybig" in name:
            return (0, M32 if (form == 0 or y32) else M64)
        return (0, (1 << width) - 1)

    dom.array_range = arr_range
    dom.name_range = lambda name, width: arr_range(name, 0, width)
    congruence = ell <= params.get("congruence_up_to", 128)
    if not congruence:
        dom.max_terms = 48  # interval-only beyond this size (see IntDom): wrap-freedom is the claim at large ell
    t0 = time.time()
    found, ndefs = vcalg.stream_eval(smt2, dom, re.compile(r"^\|VF_OUT#\d+\[\[[0-9A-F]+\]\]\|$"))
    best = {}
    for name, v in found.items():
        m = re.match(r"^\|VF_OUT#(\d+)\[\[([0-9A-F]+)\]\]\|$", name)
        k, i = int(m.group(1)), int(m.group(2), 16)
        if i not in best or k > best[i][0]:
            best[i] = (k, v)
    outs = {i: kv[1] for i, kv in best.items()}
    stats = {"vc_definitions": ndefs, "bv_operations_interpreted": dom.nops, "atoms": len(dom.names), "form": form, "ell": ell,
             "nowrap_obligations_discharged_by_intervals": dom.obl_ok, "nowrap_obligations_open": len(dom.open),
             "max_output_bits": max([o.hi.bit_length() for o in outs.values() if isinstance(o, vcalg.IPoly)] or [0]), "eval_s": round(time.time() - t0, 1)}
    nres = 4 if form <= 2 else (8 if form == 3 else 16)
    if len(outs) != nres or not all(isinstance(o, vcalg.IPoly) for o in outs.values()):
        bad = [o for o in outs.values() if not isinstance(o, vcalg.IPoly)]
        return {"status": "INCONCLUSIVE", "stats": stats, "detail": "outputs not interpretable: %r" % (bad[:1],)}
    if dom.open:
        return {"status": "FAIL", "stats": stats, "detail": "lazy arithmetic may exceed its word at ell=%d: %s" % (ell, "; ".join(dom.open[:3]))}
    if not congruence:
        stats["congruence"] = "not claimed at this ell (interval-only run); see the ell<=3 / ell=100 obligations and additivity of the accumulators"
        stats["analysis_s"] = round(time.time() - t0, 1)
        return {"status": "PASS", "stats": stats}
    # congruence: operand atoms by (array, index)
    xa = {i: a for (nm, i), a in dom.array_atoms.items() if "xbig" in nm}
    ya = {i: a for (nm, i), a in dom.array_atoms.items() if "ybig" in nm}
    for nm, a in dom.atoms.items():  # small arrays are scalarised by CBMC: element symbols xbig...[[HEX]]
        m = re.search(r"(xbig|ybig)[^\[]*\[\[([0-9A-F]+)\]\]\|$", nm)
        if m:
            (xa if m.group(1) == "xbig" else ya)[int(m.group(2), 16)] = a
    ins = {("VF_X", i): a for i, a in xa.items()}
    ins.update({("VF_Y", i): a for i, a in ya.items()})
    try:
        spec = product_spec(form, ell, ins)
    except KeyError as ex:
        return {"status": "FAIL", "stats": stats, "detail": "an operand word is never read by the kernel: %r" % (ex,)}
    ny = {0: 4, 1: 4, 2: 8, 3: 16, 4: 32}[form] * ell
    for r, out in sorted(outs.items()):
        k, terms = spec[r]
        q = qs[k]
        d = dict(out.t)
        for (x_, y_) in terms:
            m = tuple(sorted((x_, y_)))
            d[m] = d.get(m, 0) - 1
        if y32:
            sub = {}
            for i in range(0, ny, 2):
                if ((i // 2) % 4) == k and ("VF_Y", i + 1) in ins:
                    sub[ins[("VF_Y", i + 1)]] = ins[("VF_Y", i)]
            d2 = {}
            c32 = (1 << 32) % q
            for m, c in d.items():
                cc, mm = c, []
                for a in m:
                    if a in sub:
                        cc *= c32
                        mm.append(sub[a])
                    else:
                        mm.append(a)
                mm = tuple(sorted(mm))
                d2[mm] = d2.get(mm, 0) + cc
            d = d2
        rem = poly_mod(d, q)
        if rem:
            return {"status": "FAIL", "stats": stats, "detail": "output lane %d is not congruent to the %d-term sum modulo %d (%d residual monomials)" % (r, ell, q, len(rem))}
    stats["lanes_congruent"] = len(outs)
    stats["analysis_s"] = round(time.time() - t0, 1)
    return {"status": "PASS", "stats": stats}


# ------------------------------------------------------------------------------------------------- NTT120 module round trip
def check_ntt_module_roundtrip(smt2, params, spec_):
    nn, rsz, asz, negmask, qs = params["nn"], params["rsz"], params["asz"], params["negmask"], params["primes"]
    Q = qs[0] * qs[1] * qs[2] * qs[3]
    M63 = (1 << 63) - 1
    vc = vcalg.VC(smt2)
    dom = vcalg.IntDom()
    dom.allow_signed = True
    ev = vcalg.Evaluator(vc, dom)
    ins = {}
    for i, nme in sorted(vc.final_versions("VF_X").items()):
        p = ev.ev(nme)
        a = list(p.t)[0][0]
        ins[i] = a
        dom.ranges[a] = (0, M63)
    dom.obl_ok, dom.open = 0, []
    ev = vcalg.Evaluator(vc, dom)
    outs = {i: ev.ev(nme) for i, nme in sorted(vc.final_versions("VF_R128").items())}
    stats = {"vc_definitions": len(vc.defs), "bv_operations_interpreted": dom.nops, "atoms": len(dom.names), "range_obligations_discharged": dom.obl_ok,
             "range_obligations_open": len(dom.open), "nn": nn, "negmask": negmask}
    rep = ["0"] * (asz * nn)
    if dom.open:
        return {"status": "FAIL", "stats": stats, "detail": "arithmetic may leave its word: " + "; ".join(dom.open[:3]), "replay_inputs": rep}
    if len(outs) != rsz * nn:
        return {"status": "INCONCLUSIVE", "stats": stats, "detail": "expected %d outputs, found %d" % (rsz * nn, len(outs))}
    for i, r in sorted(outs.items()):
        limb, j = divmod(i, nn)
        if limb < asz:
            v = ins[limb * nn + j]
            xval = {(v,): 1, (): -(1 << 63)} if (negmask >> j) & 1 else {(v,): 1}
        else:
            xval = {}
        if limb >= asz:
            if r.t or r.lo != 0 or r.hi != 0:
                return {"status": "FAIL", "stats": stats, "detail": "output limb %d beyond the input size is not exactly zero" % limb, "replay_inputs": rep}
            continue
        for k in range(4):
            d = poly_mod(vcalg.ip_add(r.t, xval, -1), qs[k])
            if d:
                return {"status": "FAIL", "stats": stats, "replay_inputs": rep,
                        "detail": "idft(dft(a)) coefficient %d of limb %d is not congruent to the input modulo prime %d (%d residual monomials)" % (j, limb, k, len(d))}
        if not (2 * r.lo > -Q and 2 * r.hi <= Q):
            return {"status": "FAIL", "stats": stats, "replay_inputs": rep, "detail": "result not provably the centered representative: [%d,%d]" % (r.lo, r.hi)}
    stats["identity"] = "congruent to the input modulo all four primes and centered in (-Q/2,Q/2]: equals the input since |input| < 2^63 < Q/2"
    return {"status": "PASS", "stats": stats}
