"""C10 / C04 / C03: q120 arithmetic as integer polynomials with rigorous intervals (vcalg IntDom).

Two kinds of facts per harness instance:
  * no-wrap / operand-width side conditions collected while translating the bit-vector operations (C04);
  * congruence of every output lane modulo its prime with the specification polynomial (C10, C03), checked as a
    polynomial identity D == q*W with an explicit integer witness W, the identity being cross-checked by cvc5 (QF_NIA).
"""
import random
import subprocess
import time

from vf import vcalg


def eval_int(smt2, in_bases, out_base, ranges):
    """ranges: {(base, index): (lo, hi)} for harness inputs.  returns (dom, ins, outs)"""
    vc = vcalg.VC(smt2)
    dom = vcalg.IntDom()
    ev = vcalg.Evaluator(vc, dom)
    ins = {}
    for base in in_bases:
        fin = vc.final_versions(base)
        for i in sorted(fin):
            p = ev.ev(fin[i])
            if not (isinstance(p, vcalg.IPoly) and len(p.t) == 1 and list(p.t.values()) == [1] and len(list(p.t)[0]) == 1):
                raise vcalg.Unsupported("harness input %s[%d] is not a free symbol" % (base, i))
            a = list(p.t)[0][0]
            ins[(base, i)] = a
            if (base, i) in ranges:
                dom.ranges[a] = ranges[(base, i)]
    dom.obl_ok = 0
    dom.open = []
    ev = vcalg.Evaluator(vc, dom)  # fresh memo: atom ranges are now the declared ones
    outs = {}
    fin = vc.final_versions(out_base)
    for i in sorted(fin):
        outs[i] = ev.ev(fin[i])
    return vc, dom, ins, outs


def poly_mod(t, q):
    out = {}
    for m, c in t.items():
        c %= q
        if c:
            out[m] = c
    return out


def subst(t, a, repl):
    """substitute atom a by polynomial repl (dict) in t"""
    out = {}
    for m, c in t.items():
        n = m.count(a)
        if not n:
            out[m] = out.get(m, 0) + c
            continue
        rest = tuple(x for x in m if x != a)
        p = {rest: c}
        for _ in range(n):
            p = vcalg.ip_mul(p, repl)
        for mm, cc in p.items():
            out[mm] = out.get(mm, 0) + cc
    return {m: c for m, c in out.items() if c}


def smt_poly(t, names):
    if not t:
        return "0"
    terms = []
    for m, c in sorted(t.items()):
        fac = [str(c) if c >= 0 else "(- %d)" % (-c)] + [names[a] for a in m]
        terms.append(fac[0] if len(fac) == 1 else "(* %s)" % " ".join(fac))
    return terms[0] if len(terms) == 1 else "(+ %s)" % " ".join(terms)


def cvc5_identity(lhs, rhs, natoms, timeout_s=60):
    """ask cvc5 (QF_NIA) whether lhs != rhs is satisfiable over the integers"""
    names = {i: "a%d" % i for i in range(natoms)}
    used = sorted({a for t in (lhs, rhs) for m in t for a in m})
    script = ["(set-logic QF_NIA)"] + ["(declare-const %s Int)" % names[a] for a in used]
    script.append("(assert (distinct %s %s))" % (smt_poly(lhs, names), smt_poly(rhs, names)))
    script.append("(check-sat)")
    t0 = time.time()
    p = subprocess.run(["cvc5", "--tlimit=%d" % (timeout_s * 1000)], input="\n".join(script), capture_output=True, text=True)
    out = (p.stdout + p.stderr).strip()
    return out.split("\n")[0] if out else "unknown", time.time() - t0


def product_spec(form, ell, ins):
    """{output index: (lane k, [(x atom, y0 atom)], [(y1 atom, y0 atom, k)])}"""
    spec = {}
    nres = 4 if form <= 2 else (8 if form == 3 else 16)
    for r in range(nres):
        k, blk = r % 4, r // 4
        terms = []
        for i in range(ell):
            if form <= 1:
                xa, ya = ins[("VF_X", 4 * i + k)], ins[("VF_Y", 4 * i + k)]
            elif form == 2:
                xa, ya = ins[("VF_X", 4 * i + k)], ins[("VF_Y", 8 * i + 2 * k)]
            elif form == 3:
                xa, ya = ins[("VF_X", 8 * i + 4 * blk + k)], ins[("VF_Y", 16 * i + 8 * blk + 2 * k)]
            else:
                xa, ya = ins[("VF_X", 8 * i + 4 * (blk % 2) + k)], ins[("VF_Y", 32 * i + 8 * blk + 2 * k)]
            terms.append((xa, ya))
        spec[r] = (k, terms)
    return spec


def check_product(smt2, params, spec_):
    form, ell, qs = params["form"], params["ell"], params["primes"]
    y32 = form >= 2
    nx = (4 if form <= 2 else 8) * ell
    ny = {0: 4, 1: 4, 2: 8, 3: 16, 4: 32}[form] * ell
    ranges = {}
    M32, M64 = (1 << 32) - 1, (1 << 64) - 1
    for i in range(nx):
        ranges[("VF_X", i)] = (0, M32 if form == 0 else M64)
    for i in range(ny):
        ranges[("VF_Y", i)] = (0, M32 if (form == 0 or y32) else M64)
    t0 = time.time()
    vc, dom, ins, outs = eval_int(smt2, ["VF_X", "VF_Y"] if ell else [], "VF_OUT", ranges)
    stats = {"vc_definitions": len(vc.defs), "bv_operations_interpreted": dom.nops, "atoms": len(dom.names), "input_atoms": len(ins),
             "nowrap_obligations_discharged_by_intervals": dom.obl_ok, "nowrap_obligations_open": len(dom.open), "form": form, "ell": ell,
             "max_output_bits": max([o.hi.bit_length() for o in outs.values()] or [0])}
    solver_s = 0.0
    if dom.open:
        # a wrap that interval reasoning cannot exclude: try the all-maximal operand pattern as a concrete witness
        return {"status": "FAIL", "stats": stats, "detail": "lazy arithmetic may exceed its word: " + "; ".join(dom.open[:3]),
                "replay_inputs": [str(M32 if (form == 0) else M64)] * nx + [str(M32 if (form == 0 or y32) else M64)] * ny}
    spec = product_spec(form, ell, ins) if ell else {r: (r % 4, []) for r in outs}
    checked = 0
    for r, out in sorted(outs.items()):
        k, terms = spec[r]
        q = qs[k]
        d = dict(out.t)
        for (xa, ya) in terms:
            m = tuple(sorted((xa, ya)))
            d[m] = d.get(m, 0) - 1
        d = {m: c for m, c in d.items() if c}
        if y32:
            # c layout: the odd 32-bit words are (even word * 2^32) mod q -> congruent substitution y1 := 2^32 * y0
            for i in range(0, ny, 2):
                a1, a0 = ins[("VF_Y", i + 1)], ins[("VF_Y", i)]
                if ((i // 2) % 4) == k:
                    d = subst(d, a1, {(a0,): (1 << 32) % q})
        rem = poly_mod(d, q)
        if rem:
            # not congruent as a polynomial identity: look for a concrete separating input
            rnd = random.Random(12345 + r)
            for trial in range(200):
                assign = {}
                vals = {}
                for (base, i), a in ins.items():
                    lo, hi = dom.ranges[a]
                    v = hi if trial == 0 else (rnd.choice([hi, lo, hi - 1, rnd.randint(lo, hi), rnd.randint(lo, hi)]))
                    vals[(base, i)] = v
                if y32:
                    for i in range(0, ny, 2):
                        qq = qs[(i // 2) % 4]
                        vals[("VF_Y", i + 1)] = (vals[("VF_Y", i)] << 32) % qq
                for key, a in ins.items():
                    assign[a] = vals[key]
                got = vcalg.int_concrete(dom, out.t, assign) % q
                want = sum(assign[xa] * assign[ya] for xa, ya in terms) % q
                if got != want:
                    rep = [str(vals[("VF_X", i)]) for i in range(nx)] + [str(vals[("VF_Y", i)] if (not y32 or i % 2 == 0) else 0) for i in range(ny)]
                    return {"status": "FAIL", "stats": stats, "replay_inputs": rep,
                            "detail": "output lane %d is not congruent to sum x_i*y_i modulo %d (separating input found by evaluating the exported terms)" % (r, q)}
            return {"status": "INCONCLUSIVE", "stats": stats,
                    "detail": "output lane %d: congruence is not a polynomial identity (%d residual monomials) but no separating input was found" % (r, len(rem))}
        # witness form: d == q * W  (pure polynomial identity over the integers), cross-checked by cvc5
        W = {m: c // q for m, c in d.items()}
        if r in (0, len(outs) - 1):
            lhs = d
            rhs = {m: c * q for m, c in W.items() if c}
            res, dt = cvc5_identity(lhs, rhs, len(dom.names))
            solver_s += dt
            if res != "unsat":
                return {"status": "INCONCLUSIVE", "stats": stats, "detail": "cvc5 did not confirm the witness identity for lane %d: %s" % (r, res)}
        checked += 1
    stats["lanes_congruent"] = checked
    stats["analysis_s"] = round(time.time() - t0, 2)
    return {"status": "PASS", "stats": stats, "solver_s": solver_s}


# ------------------------------------------------------------------------------------------------- conversions
def _ground(cond, what):
    if not cond:
        raise AssertionError(what)


def check_conv(smt2, params, spec_):
    conv, neg, qs = params["conv"], params.get("neg", 0), params["primes"]
    Q = qs[0] * qs[1] * qs[2] * qs[3]
    M32, M63, M64 = (1 << 32) - 1, (1 << 63) - 1, (1 << 64) - 1
    nin = {0: 1, 1: 1, 6: 1, 2: 4, 5: 4, 3: 8, 4: 8}[conv]
    ranges = {("VF_X", i): (0, M63 if conv in (0, 1, 6) else (M32 if conv == 4 else M64)) for i in range(nin)}
    vc = vcalg.VC(smt2)
    dom = vcalg.IntDom()
    dom.allow_signed = True
    ev = vcalg.Evaluator(vc, dom)
    ins = {}
    fin = vc.final_versions("VF_X")
    for i in sorted(fin):
        p = ev.ev(fin[i])
        a = list(p.t)[0][0]
        ins[i] = a
        dom.ranges[a] = ranges[("VF_X", i)]
    dom.obl_ok, dom.open = 0, []
    ev = vcalg.Evaluator(vc, dom)
    outs = {i: ev.ev(n) for i, n in sorted(vc.final_versions("VF_OUT").items())}
    stats = {"vc_definitions": len(vc.defs), "bv_operations_interpreted": dom.nops, "atoms": len(dom.names), "conv": conv, "neg": neg,
             "range_obligations_discharged": dom.obl_ok, "range_obligations_open": len(dom.open)}
    if dom.open:
        return {"status": "FAIL", "stats": stats, "detail": "arithmetic may leave its word: " + "; ".join(dom.open[:3]),
                "replay_inputs": [str(M63 if conv in (0, 1, 6) else M64)] * nin}

    def cong(poly, spec, q, what):
        d = poly_mod(vcalg.ip_add(poly, spec, -1), q)
        if d:
            raise AssertionError("%s: not congruent modulo %d as a polynomial identity (%d residual monomials)" % (what, q, len(d)))

    try:
        if conv in (0, 1, 6):
            v = ins[0]
            xval = {(v,): 1, (): -(1 << 63)} if neg else {(v,): 1}  # the signed input as a polynomial
        if conv == 0:
            for k in range(4):
                cong(outs[k].t, xval, qs[k], "b_from_znx64 lane %d" % k)
                _ground(outs[k].lo >= 0 and outs[k].hi <= M64, "lane range")
        elif conv == 1:
            for k in range(4):
                cong(outs[2 * k].t, xval, qs[k], "c_from_znx64 word %d" % (2 * k))
                _ground(0 <= outs[2 * k].lo and outs[2 * k].hi < qs[k], "c_from_znx64: first word reduced below q (interval [%d,%d])" % (outs[2 * k].lo, outs[2 * k].hi))
                cong(outs[2 * k + 1].t, vcalg.ip_scale(outs[2 * k].t, 1 << 32), qs[k], "c_from_znx64 word %d" % (2 * k + 1))
                _ground(0 <= outs[2 * k + 1].lo and outs[2 * k + 1].hi < qs[k], "second word reduced below q")
        elif conv == 2:
            for k in range(4):
                cong(outs[2 * k].t, {(ins[k],): 1}, qs[k], "c_from_b word %d" % (2 * k))
                _ground(outs[2 * k].hi < qs[k], "first word below q")
                cong(outs[2 * k + 1].t, vcalg.ip_scale(outs[2 * k].t, 1 << 32), qs[k], "c_from_b word %d" % (2 * k + 1))
                _ground(outs[2 * k + 1].hi < qs[k], "second word below q")
        elif conv == 3:
            for k in range(4):
                cong(outs[k].t, {(ins[k],): 1, (ins[4 + k],): 1}, qs[k], "add_bbb lane %d" % k)
                _ground(outs[k].hi <= M64, "add_bbb: no wrap")
        elif conv == 4:
            for k in range(4):
                cong(outs[2 * k].t, {(ins[k],): 1, (ins[4 + k],): 1}, qs[k], "add_ccc word %d" % (2 * k))
                cong(outs[2 * k + 1].t, vcalg.ip_scale(outs[2 * k].t, 1 << 32), qs[k], "add_ccc word %d" % (2 * k + 1))
                _ground(outs[2 * k].hi < qs[k] and outs[2 * k + 1].hi < qs[k], "add_ccc: words reduced below q")
        elif conv in (5, 6):
            r = ev.ev(vc.final_versions("VF_R128")[0])
            stats["result_interval"] = [str(r.lo), str(r.hi)]
            for k in range(4):
                spec = {(ins[k],): 1} if conv == 5 else xval
                cong(r.t, spec, qs[k], "b_to_znx128 vs lane %d" % k)
            _ground(2 * r.lo > -Q and 2 * r.hi <= Q, "b_to_znx128: centered representative in (-Q/2, Q/2] (interval [%d,%d])" % (r.lo, r.hi))
            # ground facts about the CRT constants follow from the congruences above holding for all lane values
    except AssertionError as ex:
        rep = [0] if nin == 1 else [M64, 1, qs[2] - 1, qs[3]] * (nin // 4)
        if conv == 5:
            rep = [((Q + 1) // 2) % qk for qk in qs]  # the residue class at the edge of the centered range
        return {"status": "FAIL", "stats": stats, "detail": str(ex), "replay_inputs": [str(x) for x in rep]}
    return {"status": "PASS", "stats": stats}


# ------------------------------------------------------------------------------------------------- NTT end to end
def check_ntt(smt2, params, spec_):
    n, direction, qs, omegas = params["n"], params["dir"], params["primes"], params["omegas"]
    M64 = (1 << 64) - 1
    ranges = {("VF_X", i): (0, M64) for i in range(4 * n)}
    t0 = time.time()
    vc, dom, ins, outs = eval_int(smt2, ["VF_X"], "VF_OUT", ranges)
    stats = {"vc_definitions": len(vc.defs), "bv_operations_interpreted": dom.nops, "atoms": len(dom.names), "n": n, "dir": direction,
             "nowrap_obligations_discharged_by_intervals": dom.obl_ok, "nowrap_obligations_open": len(dom.open),
             "max_output_bits": max(o.hi.bit_length() for o in outs.values()), "eval_s": round(time.time() - t0, 2)}
    if len(outs) != 4 * n or len(ins) != 4 * n:
        return {"status": "INCONCLUSIVE", "stats": stats, "detail": "expected %d lanes, found %d inputs / %d outputs" % (4 * n, len(ins), len(outs))}
    allmax = [str(M64)] * (4 * n)
    if dom.open:
        return {"status": "FAIL", "stats": stats, "detail": "lazy arithmetic may exceed its word: " + "; ".join(dom.open[:3]), "replay_inputs": allmax}
    inv = {a: key[1] for key, a in ins.items()}
    exps = {}
    for k in range(4):
        q = qs[k]
        w = pow(omegas[k], (1 << 16) // n, q)  # primitive 2n-th root of unity
        if n > 1 and (pow(w, n, q) != q - 1):
            return {"status": "INCONCLUSIVE", "stats": stats, "detail": "omega is not a primitive 2n-th root modulo %d" % q}
        powidx = {pow(w, e, q): e for e in range(2 * n)}
        ninv = pow(n, -1, q)
        seen = set()
        for p in range(n):
            o = outs[4 * p + k]
            coef = {}
            for m, c in o.t.items():
                c %= q
                if not c:
                    continue
                if len(m) == 1 and m[0] in inv:
                    idx = inv[m[0]]
                    if idx % 4 != k:
                        return {"status": "FAIL", "stats": stats, "replay_inputs": allmax,
                                "detail": "output (%d, prime %d) depends on input lane %d of another prime" % (p, k, idx)}
                    coef[idx // 4] = c
                else:
                    return {"status": "FAIL", "stats": stats, "replay_inputs": allmax,
                            "detail": "output (%d, prime %d) is not congruent to a linear form of the inputs: residual monomial %s with coefficient %d mod q"
                                      % (p, k, [dom.names[a] for a in m], c)}
            if direction == 2:
                if coef != {p: 1}:
                    return {"status": "FAIL", "stats": stats, "replay_inputs": [str((i * 2654435761 + 12345) & M64) for i in range(4 * n)],
                            "detail": "intt(ntt(x)) at position %d prime %d is %s, not x" % (p, k, dict(list(coef.items())[:4]))}
                continue
            # evaluation-map structure: coefficient of x_j is w^(e_p*j) (forward) resp. n^-1 * w^(-e_j*p)... checked per output row / column
            if direction == 0:
                c1 = coef.get(1, 0) if n > 1 else w
                e = powidx.get(c1)
                if coef.get(0, 0) != 1 or e is None or e % 2 == 0 or e in seen:
                    return {"status": "FAIL", "stats": stats, "replay_inputs": [str((i * 2654435761 + 12345) & M64) for i in range(4 * n)],
                            "detail": "forward output %d prime %d: coefficient of x_1 is not an unused odd power of omega" % (p, k)}
                seen.add(e)
                for j in range(n):
                    if coef.get(j, 0) != pow(w, (e * j) % (2 * n), q):
                        return {"status": "FAIL", "stats": stats, "replay_inputs": [str((i * 2654435761 + 12345) & M64) for i in range(4 * n)],
                                "detail": "forward output %d prime %d: coefficient of x_%d is not omega^(%d*%d)" % (p, k, j, e, j)}
                exps[(k, p)] = e
            else:
                # inverse: output p = n^-1 * sum_j y_j * w^(-e_j * p): each column j must be geometric in p with an odd exponent
                pass
        if direction == 1:
            used = set()
            for j in range(n):
                col = [outs[4 * p + k].t.get((ins[("VF_X", 4 * j + k)],), 0) % q for p in range(n)]
                if col[0] != ninv:
                    return {"status": "FAIL", "stats": stats, "replay_inputs": allmax, "detail": "inverse: column %d prime %d does not start with n^-1" % (j, k)}
                if n > 1:
                    ratio = (col[1] * n) % q
                    e = powidx.get(ratio)
                    if e is None or e % 2 == 0 or e in used:
                        return {"status": "FAIL", "stats": stats, "replay_inputs": allmax,
                                "detail": "inverse: column %d prime %d is not n^-1 * (odd power of omega)^p with a fresh exponent" % (j, k)}
                    used.add(e)
                    for p in range(n):
                        if col[p] != (ninv * pow(w, (e * p) % (2 * n), q)) % q:
                            return {"status": "FAIL", "stats": stats, "replay_inputs": allmax, "detail": "inverse: column %d prime %d not geometric at row %d" % (j, k, p)}
    stats["analysis_s"] = round(time.time() - t0, 2)
    return {"status": "PASS", "stats": stats}


# ------------------------------------------------------------------------------------------------- products at ell = 10000
def check_product_big(smt2, params, spec_):
    """h_prod_big: operands are uninitialised local arrays; one streaming pass over the (large) exported VC."""
    import re
    form, ell, qs = params["form"], params["ell"], params["primes"]
    y32 = form >= 2
    M32, M64 = (1 << 32) - 1, (1 << 64) - 1
    dom = vcalg.IntDom()

    def arr_range(name, idx, width):
        if "xbig" in name:
            return (0, M32 if form == 0 else M64)
        if "ybig" in name:
            return (0, M32 if (form == 0 or y32) else M64)
        return (0, (1 << width) - 1)

    dom.array_range = arr_range
    dom.name_range = lambda name, width: arr_range(name, 0, width)
    congruence = ell <= params.get("congruence_up_to", 128)
    if not congruence:
        dom.max_terms = 48  # interval-only beyond this size (see IntDom): wrap-freedom is the claim at large ell
    t0 = time.time()
    found, ndefs = vcalg.stream_eval(smt2, dom, re.compile(r"^\|VF_OUT#\d+\[\[[0-9A-F]+\]\]\|$"))
    best = {}
    for name, v in found.items():
        m = re.match(r"^\|VF_OUT#(\d+)\[\[([0-9A-F]+)\]\]\|$", name)
        k, i = int(m.group(1)), int(m.group(2), 16)
        if i not in best or k > best[i][0]:
            best[i] = (k, v)
    outs = {i: kv[1] for i, kv in best.items()}
    stats = {"vc_definitions": ndefs, "bv_operations_interpreted": dom.nops, "atoms": len(dom.names), "form": form, "ell": ell,
             "nowrap_obligations_discharged_by_intervals": dom.obl_ok, "nowrap_obligations_open": len(dom.open),
             "max_output_bits": max([o.hi.bit_length() for o in outs.values() if isinstance(o, vcalg.IPoly)] or [0]), "eval_s": round(time.time() - t0, 1)}
    nres = 4 if form <= 2 else (8 if form == 3 else 16)
    if len(outs) != nres or not all(isinstance(o, vcalg.IPoly) for o in outs.values()):
        bad = [o for o in outs.values() if not isinstance(o, vcalg.IPoly)]
        return {"status": "INCONCLUSIVE", "stats": stats, "detail": "outputs not interpretable: %r" % (bad[:1],)}
    if dom.open:
        return {"status": "FAIL", "stats": stats, "detail": "lazy arithmetic may exceed its word at ell=%d: %s" % (ell, "; ".join(dom.open[:3]))}
    if not congruence:
        stats["congruence"] = "not claimed at this ell (interval-only run); see the ell<=3 / ell=100 obligations and additivity of the accumulators"
        stats["analysis_s"] = round(time.time() - t0, 1)
        return {"status": "PASS", "stats": stats}
    # congruence: operand atoms by (array, index)
    xa = {i: a for (nm, i), a in dom.array_atoms.items() if "xbig" in nm}
    ya = {i: a for (nm, i), a in dom.array_atoms.items() if "ybig" in nm}
    for nm, a in dom.atoms.items():  # small arrays are scalarised by CBMC: element symbols xbig...[[HEX]]
        m = re.search(r"(xbig|ybig)[^\[]*\[\[([0-9A-F]+)\]\]\|$", nm)
        if m:
            (xa if m.group(1) == "xbig" else ya)[int(m.group(2), 16)] = a
    ins = {("VF_X", i): a for i, a in xa.items()}
    ins.update({("VF_Y", i): a for i, a in ya.items()})
    try:
        spec = product_spec(form, ell, ins)
    except KeyError as ex:
        return {"status": "FAIL", "stats": stats, "detail": "an operand word is never read by the kernel: %r" % (ex,)}
    ny = {0: 4, 1: 4, 2: 8, 3: 16, 4: 32}[form] * ell
    for r, out in sorted(outs.items()):
        k, terms = spec[r]
        q = qs[k]
        d = dict(out.t)
        for (x_, y_) in terms:
            m = tuple(sorted((x_, y_)))
            d[m] = d.get(m, 0) - 1
        if y32:
            sub = {}
            for i in range(0, ny, 2):
                if ((i // 2) % 4) == k and ("VF_Y", i + 1) in ins:
                    sub[ins[("VF_Y", i + 1)]] = ins[("VF_Y", i)]
            d2 = {}
            c32 = (1 << 32) % q
            for m, c in d.items():
                cc, mm = c, []
                for a in m:
                    if a in sub:
                        cc *= c32
                        mm.append(sub[a])
                    else:
                        mm.append(a)
                mm = tuple(sorted(mm))
                d2[mm] = d2.get(mm, 0) + cc
            d = d2
        rem = poly_mod(d, q)
        if rem:
            return {"status": "FAIL", "stats": stats, "detail": "output lane %d is not congruent to the %d-term sum modulo %d (%d residual monomials)" % (r, ell, q, len(rem))}
    stats["lanes_congruent"] = len(outs)
    stats["analysis_s"] = round(time.time() - t0, 1)
    return {"status": "PASS", "stats": stats}


# ------------------------------------------------------------------------------------------------- NTT120 module round trip
def check_ntt_module_roundtrip(smt2, params, spec_):
    nn, rsz, asz, negmask, qs = params["nn"], params["rsz"], params["asz"], params["negmask"], params["primes"]
    Q = qs[0] * qs[1] * qs[2] * qs[3]
    M63 = (1 << 63) - 1
    vc = vcalg.VC(smt2)
    dom = vcalg.IntDom()
    dom.allow_signed = True
    ev = vcalg.Evaluator(vc, dom)
    ins = {}
    for i, nme in sorted(vc.final_versions("VF_X").items()):
        p = ev.ev(nme)
        a = list(p.t)[0][0]
        ins[i] = a
        dom.ranges[a] = (0, M63)
    dom.obl_ok, dom.open = 0, []
    ev = vcalg.Evaluator(vc, dom)
    outs = {i: ev.ev(nme) for i, nme in sorted(vc.final_versions("VF_R128").items())}
    stats = {"vc_definitions": len(vc.defs), "bv_operations_interpreted": dom.nops, "atoms": len(dom.names), "range_obligations_discharged": dom.obl_ok,
             "range_obligations_open": len(dom.open), "nn": nn, "negmask": negmask}
    rep = ["0"] * (asz * nn)
    if dom.open:
        return {"status": "FAIL", "stats": stats, "detail": "arithmetic may leave its word: " + "; ".join(dom.open[:3]), "replay_inputs": rep}
    if len(outs) != rsz * nn:
        return {"status": "INCONCLUSIVE", "stats": stats, "detail": "expected %d outputs, found %d" % (rsz * nn, len(outs))}
    for i, r in sorted(outs.items()):
        limb, j = divmod(i, nn)
        if limb < asz:
            v = ins[limb * nn + j]
            xval = {(v,): 1, (): -(1 << 63)} if (negmask >> j) & 1 else {(v,): 1}
        else:
            xval = {}
        if limb >= asz:
            if r.t or r.lo != 0 or r.hi != 0:
                return {"status": "FAIL", "stats": stats, "detail": "output limb %d beyond the input size is not exactly zero" % limb, "replay_inputs": rep}
            continue
        for k in range(4):
            d = poly_mod(vcalg.ip_add(r.t, xval, -1), qs[k])
            if d:
                return {"status": "FAIL", "stats": stats, "replay_inputs": rep,
                        "detail": "idft(dft(a)) coefficient %d of limb %d is not congruent to the input modulo prime %d (%d residual monomials)" % (j, limb, k, len(d))}
        if not (2 * r.lo > -Q and 2 * r.hi <= Q):
            return {"status": "FAIL", "stats": stats, "replay_inputs": rep, "detail": "result not provably the centered representative: [%d,%d]" % (r.lo, r.hi)}
    stats["identity"] = "congruent to the input modulo all four primes and centered in (-Q/2,Q/2]: equals the input since |input| < 2^63 < Q/2"
    return {"status": "PASS", "stats": stats}


# ------------------------------------------------------------------------------------------------- per-level interval induction (all n <= 65536)
def check_ntt_levels(smt2, params, spec_):
    """h_ntt_levels: level l of the real transform applied to a block of fresh symbolic vectors.  Inputs of level l are bounded by the
    interval derived for the outputs of level l-1 (level 0: any 64-bit value), twiddle halves by the maxima of the real table.  Per level:
    every add/sub/shift stays inside its word (interval obligations), and each output is congruent modulo its prime to the butterfly
    formula once the table relation t1 = t*2^half_bs (mod q) is substituted - a 32x32 multiply that dropped operand bits leaves a residual."""
    n, direction, qs, meta = params["n"], params["dir"], params["primes"], params["meta"]
    tmax, t1max, inbits = params["tmax"], params["t1max"], params["inbits"]
    nlev = len(meta)
    t0 = time.time()
    vc = vcalg.VC(smt2)
    dom = vcalg.IntDom()
    ev = vcalg.Evaluator(vc, dom)
    atoms = {}
    for base in ("VF_LX", "VF_LT", "VF_LT1"):
        fin = vc.final_versions(base)
        for i in sorted(fin):
            pz = ev.ev(fin[i])
            if not (isinstance(pz, vcalg.IPoly) and len(pz.t) == 1 and list(pz.t.values()) == [1] and len(list(pz.t)[0]) == 1):
                return {"status": "INCONCLUSIVE", "detail": "harness input %s[%d] is not a free symbol" % (base, i)}
            atoms[(base, i)] = list(pz.t)[0][0]
    fout = vc.final_versions("VF_LOUT")
    H = [(1 << inbits) - 1] * 4
    levels = []
    total_ok = 0
    for l in range(nlev):
        first = (l == 0) if direction == 0 else (l == nlev - 1)
        if first:
            blk = 4
        else:
            nn_real = (n >> (l - 1)) if direction == 0 else (2 << l)
            blk = 4 if nn_real >= 4 else 2
        for i in range(16):
            k = i % 4
            dom.ranges[atoms[("VF_LX", 16 * l + i)]] = (0, H[k])
            dom.ranges[atoms[("VF_LT", 16 * l + i)]] = (0, tmax[k])
            dom.ranges[atoms[("VF_LT1", 16 * l + i)]] = (0, t1max[k])
        dom.obl_ok, dom.open = 0, []
        ev = vcalg.Evaluator(vc, dom)
        outs = {}
        for i in range(4 * blk):
            if 16 * l + i not in fout:
                return {"status": "INCONCLUSIVE", "detail": "output lane %d of level %d missing" % (i, l)}
            outs[i] = ev.ev(fout[16 * l + i])
        worst_in = [str(H[i % 4]) if True else "0" for i in range(16)]
        if dom.open:
            # replay values: the interval extremes of this level (a = 0, b = max for a borrowing lazy subtraction, all max otherwise)
            rep = []
            borrow = any("sub" in d for d in dom.open[:3])
            for ll in range(nlev):
                for i in range(16):
                    v = i // 4
                    xin = H[i % 4] if ll == l else 0
                    if ll == l and borrow and not first and v < blk // 2:
                        xin = 0
                    rep += [str(xin), str(tmax[i % 4]), "0"]
            return {"status": "FAIL", "replay_inputs": rep, "stats": {"level": l, "input_bound_bits": [h.bit_length() for h in H]},
                    "detail": "level %d (metadata bs=%d half_bs=%d reduce=%d) on inputs < %s: %s" % (l, meta[l]["bs"], meta[l]["half_bs"], meta[l]["reduce"],
                                                                                                  [hex(h) for h in H], "; ".join(dom.open[:3]))}
        total_ok += dom.obl_ok
        # congruence of every output with the butterfly formula modulo its prime
        hb = meta[l]["half_bs"]
        for i in range(4 * blk):
            k, v = i % 4, i // 4
            q = qs[k]
            o = outs[i].t
            X = lambda j: atoms[("VF_LX", 16 * l + 4 * j + k)]
            if first:
                tt = atoms[("VF_LT", 16 * l + i)]
                t1 = atoms[("VF_LT1", 16 * l + i)]
                o = subst(o, t1, {(tt,): (1 << hb) % q})
                expect = {tuple(sorted((X(v), tt))): 1}
            else:
                half = blk // 2
                j = v % half
                a, b = X(j), X(j + half)
                if j:
                    tt = atoms[("VF_LT", 16 * l + 4 * (j - 1) + k)]
                    t1 = atoms[("VF_LT1", 16 * l + 4 * (j - 1) + k)]
                    o = subst(o, t1, {(tt,): (1 << hb) % q})
                    ta, tb = tuple(sorted((a, tt))), tuple(sorted((b, tt)))
                if direction == 0:
                    expect = {(a,): 1, (b,): 1} if v < half else ({(a,): 1, (b,): -1} if not j else {ta: 1, tb: -1})
                else:
                    if not j:
                        expect = {(a,): 1, (b,): 1} if v < half else {(a,): 1, (b,): -1}
                    else:
                        expect = {(a,): 1, tb: 1} if v < half else {(a,): 1, tb: -1}
            d = poly_mod(vcalg.ip_add(o, expect, -1), q)
            if d:
                rep = []
                for ll in range(nlev):
                    for i2 in range(16):
                        rep += [str(H[i2 % 4] if ll == l else 0), str(tmax[i2 % 4]), "0"]
                return {"status": "FAIL", "replay_inputs": rep, "stats": {"level": l},
                        "detail": "level %d output lane %d is not congruent to its butterfly formula modulo %d: residual %s" %
                                  (l, i, q, [([dom.names[x] for x in m], c) for m, c in list(d.items())[:3]])}
        Hn = [max(outs[i].hi for i in range(4 * blk) if i % 4 == k) for k in range(4)]
        levels.append({"level": l, "reduce": meta[l]["reduce"], "bs_claimed_by_builder": meta[l]["bs"], "derived_output_bits": [h.bit_length() for h in Hn],
                       "within_builder_claim": all(h < (1 << meta[l]["bs"]) for h in Hn)})
        H = Hn
    stats = {"n": n, "dir": direction, "levels": levels, "vc_definitions": len(vc.defs), "bv_operations_interpreted": dom.nops,
             "nowrap_obligations_discharged_by_intervals": total_ok, "eval_s": round(time.time() - t0, 2)}
    return {"status": "PASS", "stats": stats}


# ------------------------------------------------------------------------------------------------- products: every ell <= MAX_ELL by loop summarisation
_SSA = None


def _ssa_split(name):
    """'|base#v<suffix>|' -> (base+suffix, v) for an SSA symbol of an automatic object, else None"""
    global _SSA
    import re
    if _SSA is None:
        _SSA = re.compile(r"^\|([^|#]*!\d+@\d+)#(\d+)([^|]*)\|$")
    m = _SSA.match(name)
    if not m or m.group(1).startswith("goto_symex::"):
        return None
    return m.group(1) + m.group(3), int(m.group(2))


def check_product_accel(smt2, params, spec_):
    """All lengths 0 < ell <= ell_max from one symbolic execution at a small length L (h_prod, all operand values symbolic).

    The kernels are `acc = 0; for i < ell: acc_j += d_j(x_i, y_i); res = E(acc)`.  From the exported VC of the real code at ell = L:
      (1) the loop-carried accumulators are found as the automatic objects whose successive SSA versions differ by polynomials d_{j,1..L}
          over pairwise disjoint operand atoms (one iteration each), all with the same interval [lo_j, hi_j], lo_j >= 0, and the same shape;
      (2) every operation inside an iteration keeps its word (interval obligations of the integer interpreter over all operand values);
      (3) the epilogue E is re-evaluated with the accumulators' final versions replaced by fresh symbols A_j in [0, ell_max*hi_j]
          (ell_max*hi_j < 2^64: no accumulate step wraps): no epilogue add/mul wraps, and modulo each prime E is a linear form sum w_j*A_j
          with no residual floor term - a 32x32 multiply that dropped operand bits would leave one;
      (4) per iteration, sum_j w_j*d_{j,i} is congruent to x_i*y_i modulo the prime (polynomial identity, c-layout contract substituted).
    (1)-(4) give res == sum_i x_i*y_i (mod q) for every ell <= ell_max, provided iterations beyond L execute the same loop body (one loop,
    no iteration-dependent branch) - the shape check over L iterations is the evidence for that."""
    form, L, qs, ell_max = params["form"], params["ell"], params["primes"], params["ell_max"]
    y32 = form >= 2
    nx = (4 if form <= 2 else 8) * L
    ny = {0: 4, 1: 4, 2: 8, 3: 16, 4: 32}[form] * L
    M32, M64 = (1 << 32) - 1, (1 << 64) - 1
    ranges = {}
    for i in range(nx):
        ranges[("VF_X", i)] = (0, M32 if form == 0 else M64)
    for i in range(ny):
        ranges[("VF_Y", i)] = (0, M32 if (form == 0 or y32) else M64)
    t0 = time.time()
    vc, dom, ins, outs = eval_int(smt2, ["VF_X", "VF_Y"], "VF_OUT", ranges)
    stats = {"form": form, "unrolled_iterations": L, "ell_max": ell_max, "vc_definitions": len(vc.defs)}
    allmax = [str(M64)]  # replayed natively at ell = ell_max with the pattern repeated (operands are masked to their layout by the harness)
    RD = {"ELL": ell_max, "VF_CYCLIC_INPUTS": None}
    if dom.open:
        return {"status": "FAIL", "stats": stats, "detail": "an operation inside an iteration may exceed its word: " + "; ".join(dom.open[:3]), "replay_inputs": allmax, "replay_defs": RD}
    stats["in_loop_obligations_discharged"] = dom.obl_ok
    in_atoms = set(ins.values())
    iter_of = {}
    xs = 4 if form <= 2 else 8
    ys = {0: 4, 1: 4, 2: 8, 3: 16, 4: 32}[form]
    for (base, i), a in ins.items():
        iter_of[a] = i // (xs if base == "VF_X" else ys)
    # provenance of floor atoms: the iteration of the operand atoms they were derived from
    def atom_iters(a, seen=None):
        if a in iter_of:
            return {iter_of[a]}
        d = dom.defs.get(a)
        out = set()
        if d:
            for m in d[1]:
                for b in m:
                    out |= atom_iters(b)
        return out
    ev = vcalg.Evaluator(vc, dom)
    # (1) candidate accumulators: automatic objects that start at 0 and grow in >= 2 steps, each step adding whole iterations' terms
    groups = {}
    for name in vc.defs:
        sp = _ssa_split(name)
        if sp:
            groups.setdefault(sp[0], []).append((sp[1], name))
    accs = []
    why = {}
    for base, vers in groups.items():
        if len(vers) < 3:
            continue
        vers.sort()
        vals = []
        ok = True
        for v, nme in vers:
            try:
                pv = ev.ev(nme)
            except vcalg.Unsupported:
                ok = False
                break
            if not isinstance(pv, vcalg.IPoly):
                ok = False
                break
            vals.append((nme, pv))
        if not ok:
            continue
        if vals[0][1].t or vals[0][1].lo != 0 or vals[0][1].hi != 0:
            continue  # does not start at zero
        # maximal prefix of versions that grow by whole single-iteration terms; a later version (the variable reused by the epilogue) ends it
        pieces = {}
        bad = None
        step_sets = []
        final_idx = 0
        for idx, ((n0, p0), (n1, p1)) in enumerate(zip(vals, vals[1:])):
            dlt = {m: c for m, c in vcalg.ip_add(p1.t, p0.t, -1).items() if c}
            if not dlt:
                if not bad:
                    final_idx = idx + 1
                continue
            sset = set()
            loc = {}
            for m, c in dlt.items():
                its = set()
                for a in m:
                    its |= atom_iters(a)
                if len(its) != 1:
                    bad = "a monomial of a step mixes %d iterations" % len(its)
                    break
                it = list(its)[0]
                sset.add(it)
                loc.setdefault(it, {})
                loc[it][m] = loc[it].get(m, 0) + c
            if bad:
                break
            for it, pm in loc.items():
                pieces.setdefault(it, {})
                for m, c in pm.items():
                    pieces[it][m] = pieces[it].get(m, 0) + c
            step_sets.append(sset)
            final_idx = idx + 1
        if len(step_sets) < 2:
            continue
        vals = vals[:final_idx + 1]
        bad = None
        if bad or sorted(set().union(*step_sets)) != list(range(L)):
            why[base] = bad or "steps do not cover the iterations"
            continue  # a loop counter, a pointer, a temporary
        shapes = [sorted((c, len(m)) for m, c in pieces[it].items()) for it in range(L)]
        if any(sh != shapes[0] for sh in shapes):
            return {"status": "INCONCLUSIVE", "stats": stats, "detail": "accumulator %s: per-iteration terms differ in shape across the %d unrolled iterations" % (base, L)}
        last = vals[-1][1]  # the value after L iterations is a sum of L terms of identical shape over independent operands with identical ranges:
        if last.lo < 0:     # its rigorous upper bound is at least L times the largest value of one term
            return {"status": "FAIL", "stats": stats, "replay_inputs": allmax, "replay_defs": RD, "detail": "accumulator %s may decrease (interval after %d iterations [%d,%d])" % (base, L, last.lo, last.hi)}
        per_term_hi = -(-last.hi // L)
        accs.append({"base": base, "final": vals[-1][0], "pieces": pieces, "lo": 0, "hi": per_term_hi})
    if not accs:
        return {"status": "INCONCLUSIVE", "stats": stats, "detail": "no loop-carried accumulator recognised in the exported VC; rejected candidates: %s" % (sorted(why.items())[:6],)}
    stats["accumulators"] = len(accs)
    stats["increment_bits"] = sorted({a["hi"].bit_length() for a in accs})
    # (3) epilogue on fresh accumulator symbols
    for a in accs:
        if ell_max * a["hi"] > M64:
            return {"status": "FAIL", "stats": stats, "replay_inputs": allmax, "replay_defs": RD,
                    "detail": "accumulator %s: %d increments of up to %d bits exceed 64 bits" % (a["base"], ell_max, a["hi"].bit_length())}
    ev2 = vcalg.Evaluator(vc, dom)
    dom.obl_ok, dom.open = 0, []
    for a in accs:
        a["atom"] = dom.new_atom("ACC:" + a["base"], 0, ell_max * a["hi"])
        ev2.memo_sym[a["final"]] = vcalg.IPoly({(a["atom"],): 1}, 0, ell_max * a["hi"], 64)
    fin = vc.final_versions("VF_OUT")
    try:
        outs2 = {i: ev2.ev(fin[i]) for i in sorted(fin)}
    except vcalg.Unsupported as ex:
        return {"status": "FAIL", "stats": stats, "replay_inputs": allmax, "replay_defs": RD,
                "detail": "epilogue on accumulators of up to ell_max=%d terms leaves the interpretable fragment (an operand no longer fits its lane?): %s" % (ell_max, ex)}
    if dom.open:
        return {"status": "FAIL", "stats": stats, "replay_inputs": allmax, "replay_defs": RD,
                "detail": "epilogue on accumulators of up to %d terms: %s" % (ell_max, "; ".join(dom.open[:3]))}
    stats["epilogue_obligations_discharged"] = dom.obl_ok
    acc_atoms = {a["atom"]: a for a in accs}
    spec = product_spec(form, L, ins)
    checked = 0
    for r, o in sorted(outs2.items()):
        k, terms = spec[r]
        q = qs[k]
        lin = poly_mod(o.t, q)
        w = {}
        for m, c in lin.items():
            if len(m) == 1 and m[0] in acc_atoms:
                w[m[0]] = c
            else:
                return {"status": "FAIL", "stats": stats, "replay_inputs": allmax, "replay_defs": RD,
                        "detail": "output lane %d modulo %d is not a linear form of the accumulators at ell_max=%d: residual %s (an epilogue operand lost bits or an "
                                  "operand atom is still visible)" % (r, q, ell_max, [dom.names[x] for x in m])}
        # (4) per-iteration congruence
        for it in range(L):
            d = {}
            for aa, c in w.items():
                for m, cc in acc_atoms[aa]["pieces"][it].items():
                    d[m] = d.get(m, 0) + c * cc
            xa, ya = terms[it]
            mm = tuple(sorted((xa, ya)))
            d[mm] = d.get(mm, 0) - 1
            if y32:
                for i in range(0, ny, 2):
                    if ((i // 2) % 4) == k:
                        d = subst(d, ins[("VF_Y", i + 1)], {(ins[("VF_Y", i)],): (1 << 32) % q})
            rem = poly_mod(d, q)
            if rem:
                return {"status": "FAIL", "stats": stats, "replay_inputs": allmax, "replay_defs": RD,
                        "detail": "iteration %d: weighted increments of output lane %d are not congruent to x*y modulo %d (%d residual monomials)" % (it, r, q, len(rem))}
        checked += 1
    stats["lanes_congruent_for_every_ell"] = checked
    stats["max_output_bits_at_ell_max"] = max(o.hi.bit_length() for o in outs2.values())
    stats["analysis_s"] = round(time.time() - t0, 2)
    return {"status": "PASS", "stats": stats}
