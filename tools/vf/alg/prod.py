"""C01 / C02: FFT64 product pipelines as exact real polynomials with rounding radii (vcalg real domain).

Output limb l, coefficient k (before rounding, times m) must be m * sum_{i,j} s_kij a_i b_j with
s_kij = [i+j=k] - [i+j=k+N]  (negacyclic), summed over the rows for the matrix product."""
import math

from vf import vcalg
from vf.alg import common


def check_prod(smt2, params, spec_):
    path, nn = params["path"], params["nn"]
    m = nn // 2
    rsz, asz, nrows, ncols = params.get("rsz", 1), params.get("asz", 1), params.get("nrows", 1), params.get("ncols", 1)
    na_limbs = 1 if path == 0 else asz
    nb = nn if path <= 1 else nrows * ncols * nn
    nout = 1 if path == 0 else rsz
    dom, ins, outs, stats = common.real_outputs(smt2, in_base="VF_A", extra_inputs=("VF_B",),
                                                counts={"VF_A": na_limbs * nn, "VF_B": nb, "VF_OUT": nout * nn})
    A = {i: a for (b, i), a in ins.items() if b == "VF_A"}
    B = {i: a for (b, i), a in ins.items() if b == "VF_B"}
    known = set(A.values()) | set(B.values())
    lg = math.log2(nn)
    u = 2.0 ** -53
    alarm_thr = 16 * lg * u + 2.0 ** -52
    maxdev = 0.0
    maxrad = 0.0
    alarm = None
    nmono = 0
    import struct

    def replay_for(limb_a, i, boff, j):
        va = [0.0] * (na_limbs * nn)
        vb = [0.0] * nb
        va[limb_a * nn + i] = float(1 << 25)
        vb[boff + j] = float(1 << 25)
        return [str(common.f64_bits(x)) for x in va + vb]

    for o in sorted(outs):
        l, k = divmod(o, nn)
        # specification coefficients for this output
        spec = {}
        if path <= 1:
            if path == 0 or l < min(rsz, asz):
                terms = [(l, 0)]
            else:
                terms = []
        else:
            terms = [(r, (r * ncols + l) * nn) for r in range(min(nrows, asz))] if l < min(ncols, rsz) else []
        for (al, boff) in terms:
            for i in range(nn):
                for j in range(nn):
                    s = 1 if i + j == k else (-1 if i + j == k + nn else 0)
                    if s:
                        spec[tuple(sorted((A[al * nn + i], B[boff + j])))] = (s, al, i, boff, j)
        poly = outs[o]
        seen = set()
        for mono, (c, r) in poly.t.items():
            nmono += 1
            if any(a not in known for a in mono):
                return {"status": "FAIL", "stats": stats, "replay_inputs": replay_for(0, 0, 0, 0),
                        "detail": "output limb %d coefficient %d depends on %s, which is not an operand of the call (stale scratch / previous output contents?)"
                                  % (l, k, [dom.names[a] for a in mono if a not in known])}
            cf = vcalg.dy_float(c) / m
            rr = r / m
            maxrad = max(maxrad, rr)
            if len(mono) != 2 or mono not in spec:
                # a monomial the exact product does not have: its coefficient must be (numerically) zero
                dev = abs(cf)
                if dev > alarm_thr + rr and alarm is None:
                    # replay on the scaled unit inputs at the two operand positions of this monomial
                    rep = None
                    ia = [i for i, a in A.items() if a in mono]
                    ib = [i for i, a in B.items() if a in mono]
                    if len(mono) == 2 and len(ia) == 1 and len(ib) == 1:
                        rep = replay_for(ia[0] // nn, ia[0] % nn, 0, ib[0])
                    alarm = ("unexpected term a[%s]*b[%s] with coefficient %.3g in limb %d coefficient %d" % (ia, ib, cf, l, k), rep)
                maxdev = max(maxdev, dev)
                continue
            s, al, i, boff, j = spec[mono]
            seen.add(mono)
            dev = abs(cf - s)
            maxdev = max(maxdev, dev)
            if dev > alarm_thr + rr and alarm is None:
                alarm = ("coefficient of a[%d][%d]*b[%d] in limb %d coefficient %d is %.17g instead of %d" % (al, i, boff + j, l, k, cf, s), replay_for(al, i, boff, j))
        for mono, (s, al, i, boff, j) in spec.items():
            if mono not in seen:
                maxdev = max(maxdev, 1.0)
                if alarm is None:
                    alarm = ("term a[%d][%d]*b[%d] is missing from limb %d coefficient %d" % (al, i, boff + j, l, k), replay_for(al, i, boff, j))
    kappa = (maxdev + maxrad) / (lg * u) if lg else 0.0
    stats.update({"monomials": nmono, "max_coefficient_deviation_ulps": maxdev / u, "max_radius_ulps": maxrad / u, "kappa": kappa, "nn": nn, "path": path,
                  "certificate": "for all integer operands with |coefficients| < 2^50 and no intermediate above 2^1000: |result_k - (a*b)_k| <= "
                                 "kappa*log2(N)*2^-53*|a|_1*|b|_1 + 1/2 with kappa = %.2f (exact whenever that bound is < 1/2), given the C14 conversion contracts" % kappa})
    if alarm is not None:
        detail, rep = alarm
        if rep is None:
            rep = replay_for(0, 0, 0, 0)
        return {"status": "FAIL", "stats": stats, "detail": detail + " (beyond 16*log2(N)*2^-53 + radius + 2^-52: a violation of the property on scaled unit inputs)",
                "replay_inputs": rep}
    return {"status": "PASS", "stats": stats}
