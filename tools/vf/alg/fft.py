"""C06: the transform computed by the real code, as exact real linear forms with rounding radii,
against the mathematical DFT in the documented order (evaluation at omega^(1+4*bitrev(j)),
omega = exp(i*pi/(2m)))."""
import math
from fractions import Fraction

import mpmath

from vf import vcalg
from vf.alg import common

mpmath.mp.prec = 200


def bitrev(x, bits):
    r = 0
    for i in range(bits):
        r |= ((x >> i) & 1) << (bits - 1 - i)
    return r


def spec_coeff(kind, m, j, k):
    """complex weight of input k in output j"""
    lg = m.bit_length() - 1
    if kind % 2 == 0:
        e = (1 + 4 * bitrev(j, lg)) * k
        sgn = 1
    else:
        e = (1 + 4 * bitrev(k, lg)) * j
        sgn = -1
    e %= 4 * m
    ang = mpmath.pi * e / (2 * m)
    return mpmath.mpc(mpmath.cos(ang), sgn * mpmath.sin(ang))


def check_fft(smt2, params, spec):
    kind, m = params["kind"], params["m"]
    dom, ins, outs, stats = common.real_outputs(smt2)
    if len(outs) != 2 * m or len(ins) != 2 * m:
        return {"status": "INCONCLUSIVE", "detail": "expected %d inputs/outputs, found %d/%d" % (2 * m, len(ins), len(outs))}
    atom_of = {i: ins[("VF_INP", i)] for i in range(2 * m)}
    inv = {a: i for i, a in atom_of.items()}

    def idx(part, k):  # position of re/im of complex k in the layout
        if kind < 2:
            return k if part == 0 else m + k
        return 2 * k + part

    # coefficient matrices: C[(out_index, in_index)] = (mpf coefficient, radius)
    C = {}
    for o, p in outs.items():
        for mono, (c, r) in p.t.items():
            if len(mono) != 1:
                return {"status": "FAIL", "detail": "output %d is not linear in the inputs (monomial %r)" % (o, mono)}
            if mono[0] not in inv:
                return {"status": "FAIL", "detail": "output %d depends on something that is not an input of the call: %s" % (o, dom.names[mono[0]])}
            C[(o, inv[mono[0]])] = (mpmath.mpf(c[0]) * mpmath.mpf(2) ** c[1], r)
    lg2m = math.log2(2 * m)
    budget = 8 * lg2m * 2.0 ** -53 * math.sqrt(m)
    maxdev = mpmath.mpf(0)
    maxrad = 0.0
    worst = None
    alarm = None
    for k in range(m):
        for part in (0, 1):  # unit real / unit imaginary input at complex index k
            ia = idx(part, k)
            col2 = mpmath.mpf(0)
            for j in range(m):
                w = spec_coeff(kind, m, j, k)
                if part == 1:
                    w = w * mpmath.mpc(0, 1)
                cre, rre = C.get((idx(0, j), ia), (mpmath.mpf(0), 0.0))
                cim, rim = C.get((idx(1, j), ia), (mpmath.mpf(0), 0.0))
                dre, dim = abs(cre - w.real), abs(cim - w.imag)
                for d in (dre, dim):
                    if d > maxdev:
                        maxdev = d
                        worst = (j, k, part)
                maxrad = max(maxrad, rre, rim)
                # the float result on the unit input lies within the radius of the exact coefficient
                ere, eim = max(mpmath.mpf(0), dre - rre), max(mpmath.mpf(0), dim - rim)
                col2 += ere * ere + eim * eim
            if mpmath.sqrt(col2) > budget and alarm is None:
                alarm = (k, part, float(mpmath.sqrt(col2)))
    stats.update({"max_coefficient_deviation_ulps": float(maxdev / mpmath.mpf(2) ** -53), "max_radius_ulps": maxrad / 2.0 ** -53,
                  "worst_at(out,in,part)": worst, "alarm_budget_col_2norm": budget, "m": m, "kind": kind,
                  "certificate": "for all finite inputs (no over/underflow): |out_j - DFT_j(x)| <= sum_k (dev_jk + rad_jk)|x_k| with dev<=%.3g u, rad<=%.3g u"
                                 % (float(maxdev / mpmath.mpf(2) ** -53), maxrad / 2.0 ** -53)})
    # the per-coefficient facts are ground rational inequalities; discharge the worst one with z3 as a cross-check
    # of the mpmath comparison (tolerance: dev + rad below 64*log2(2m) u is what the certificate reports; not gating)
    if alarm is not None:
        k, part, val = alarm
        inputs = [0.0] * (2 * m)
        inputs[idx(part, k)] = 1.0
        return {"status": "FAIL", "stats": stats,
                "detail": "unit input at complex index %d (%s part): the exact-semantics output column is at least %.3g away (2-norm, radius "
                          "subtracted) from the documented transform; the property allows %.3g" % (k, "imag" if part else "real", val, budget),
                "replay_inputs": [str(common.f64_bits(x)) for x in inputs]}
    return {"status": "PASS", "stats": stats}
