"""C17 (and the kernel part of C07 / C13): complex-vector kernels as exact real polynomials.

No table constant is involved, so the exact-semantics polynomial of every output must EQUAL the polynomial of the
complex-arithmetic definition (coefficients are 0 or +-1); the rounding radii are reported (a few units by construction)."""
from vf import vcalg
from vf.alg import common


def spec_poly(params, A, B, R):
    """returns {out index: {monomial(tuple of atom ids): int coefficient}}"""
    kern = params["kern"]
    out = {}

    def mac(o_re, o_im, ar, ai, br, bi):
        for (o, terms) in ((o_re, ((ar, br, 1), (ai, bi, -1))), (o_im, ((ar, bi, 1), (ai, br, 1)))):
            d = out.setdefault(o, {})
            for (x, y, s) in terms:
                m = tuple(sorted((x, y)))
                d[m] = d.get(m, 0) + s
                if d[m] == 0:
                    del d[m]

    if kern in (0, 1):
        nrows = params["nrows"]
        for c in range(1 if kern == 0 else 2):
            for k in range(4):
                out.setdefault(8 * c + k, {})
                out.setdefault(8 * c + 4 + k, {})
            for row in range(nrows):
                for k in range(4):
                    u = 8 * row
                    v = 8 * row if kern == 0 else 16 * row + 8 * c
                    mac(8 * c + k, 8 * c + 4 + k, A[u + k], A[u + 4 + k], B[v + k], B[v + 4 + k])
    elif 2 <= kern <= 7:
        m = params["m"]
        for i in range(m):
            if kern <= 3:
                ire, iim = i, m + i
            elif kern <= 5:
                ire = 8 * (i // 4) + i % 4
                iim = ire + 4
            else:
                ire, iim = 2 * i, 2 * i + 1
            out.setdefault(ire, {})
            out.setdefault(iim, {})
            if kern % 2 == 1:
                out[ire][(R[ire],)] = 1
                out[iim][(R[iim],)] = 1
            mac(ire, iim, A[ire], A[iim], B[ire], B[iim])
    else:
        sizea, sizeb = params["sizea"], params["sizeb"]
        ncoef = 1 if kern == 8 else (2 if kern == 9 else params["dsize"])
        k0 = params["doff"] if kern == 10 else params["kidx"]
        for c in range(ncoef):
            for k in range(4):
                out.setdefault(8 * c + k, {})
                out.setdefault(8 * c + 4 + k, {})
            for i in range(sizea):
                for j in range(sizeb):
                    if i + j == k0 + c:
                        for k in range(4):
                            mac(8 * c + k, 8 * c + 4 + k, A[8 * i + k], A[8 * i + 4 + k], B[8 * j + k], B[8 * j + 4 + k])
    return out


def check_cvec(smt2, params, spec_):
    alias = params.get("alias", 0)
    kern = params["kern"]
    if kern in (0, 1):
        na, nb, nr = 8 * params["nrows"], (8 if kern == 0 else 16) * params["nrows"], 8 if kern == 0 else 16
    elif kern <= 7:
        na = nb = nr = 2 * params["m"]
    else:
        na, nb = 8 * params["sizea"], 8 * params["sizeb"]
        nr = 8 if kern == 8 else (16 if kern == 9 else 8 * params["dsize"])
    dom, ins, outs, stats = common.real_outputs(smt2, in_base="VF_A", extra_inputs=("VF_B",) + (("VF_R",) if alias == 0 else ()),
                                                counts={"VF_A": na, "VF_B": nb, "VF_R": nr, "VF_OUT": nr})
    A = {i: a for (b, i), a in ins.items() if b == "VF_A"}
    B = {i: a for (b, i), a in ins.items() if b == "VF_B"}
    if alias == 0:
        R = {i: a for (b, i), a in ins.items() if b == "VF_R"}
    else:
        R = dict(A if alias == 1 else B)
    spec = spec_poly(params, A, B, R)
    maxrad = 0.0
    import random
    rnd = random.Random(7)
    nin = len(A) + len(B) + (len(R) if alias == 0 else 0)
    replay = [str(common.f64_bits(float(rnd.randint(-1000, 1000)))) for _ in range(nin)]
    if set(outs) != set(spec):
        return {"status": "INCONCLUSIVE", "stats": stats, "detail": "harness outputs %s do not match the specification's %s" % (sorted(outs)[:4], sorted(spec)[:4])}
    for o in sorted(outs):
        got = {}
        for mono, (c, r) in outs[o].t.items():
            maxrad = max(maxrad, r)
            if c[0] != 0:
                got[mono] = vcalg.dy_frac(c)
        want = spec[o]
        if got != {m: c for m, c in want.items()}:
            extra = [m for m in got if m not in want or got[m] != want[m]][:3]
            missing = [m for m in want if m not in got][:3]
            return {"status": "FAIL", "stats": stats, "replay_inputs": replay,
                    "detail": "output %d: exact-semantics polynomial differs from the complex-arithmetic definition (unexpected terms %s, missing terms %s)"
                              % (o, [[dom.names[a] for a in m] for m in extra], [[dom.names[a] for a in m] for m in missing])}
    stats["max_radius_ulps"] = maxrad / 2.0 ** -53
    stats["outputs"] = len(outs)
    return {"status": "PASS", "stats": stats}
