"""helpers shared by the algebraic analyses"""
import struct
import subprocess
import time
from fractions import Fraction

from vf import vcalg


def real_outputs(smt2, in_base="VF_INP", out_base="VF_OUT", extra_inputs=(), counts=None):
    """evaluates the harness outputs in the Real domain.
    returns (dom, inputs: index->atom id, outputs: index->RPoly, stats)"""
    t0 = time.time()
    vc = vcalg.VC(smt2)
    dom = vcalg.RealDom()
    ev = vcalg.Evaluator(vc, dom)
    ins = {}
    for base in (in_base,) + tuple(extra_inputs):
        fin = vc.final_versions(base)
        for i in sorted(fin):
            if counts is not None and i >= counts.get(base, 1 << 60):
                continue  # dummy element of a zero-length operand
            p = ev.ev(fin[i])
            if not (isinstance(p, vcalg.RPoly) and len(p.t) == 1 and list(p.t.values())[0] == ((1, 0), 0.0) and len(list(p.t)[0]) == 1):
                raise vcalg.Unsupported("harness input %s[%d] is not a free symbol: %r" % (base, i, p.t if isinstance(p, vcalg.RPoly) else p))
            ins[(base, i)] = list(p.t)[0][0]
    outs = {}
    fin = vc.final_versions(out_base)
    for i in sorted(fin):
        if counts is not None and i >= counts.get(out_base, 1 << 60):
            continue
        outs[i] = ev.ev(fin[i])
    stats = {"vc_definitions": len(vc.defs), "fp_operations_interpreted": dom.nops, "atoms": len(dom.names),
             "parse_eval_s": round(time.time() - t0, 2)}
    return dom, ins, outs, stats


def f64_bits(x):
    return struct.unpack("<Q", struct.pack("<d", float(x)))[0]


def z3_check_ground(assertions_smt, timeout_s=60):
    """hand a (small) SMT-LIB script to z3; returns 'unsat'/'sat'/'unknown' and the time"""
    t0 = time.time()
    p = subprocess.run(["z3", "-in", "-T:%d" % timeout_s], input=assertions_smt, capture_output=True, text=True)
    out = p.stdout.strip().split("\n")
    if any("error" in l for l in out):
        return "error: " + " ".join(out)[:300], time.time() - t0
    return (out[0] if out else "unknown"), time.time() - t0


def frac_smt(q):
    q = Fraction(q)
    if q < 0:
        return "(- %s)" % frac_smt(-q)
    if q.denominator == 1:
        return "%d.0" % q.numerator
    return "(/ %d.0 %d.0)" % (q.numerator, q.denominator)
