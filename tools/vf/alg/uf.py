"""Bit-for-bit agreement of two executions (DESIGN.md 2.4, UF domain): every operation of the exported VC is kept
uninterpreted and hash-consed; two outputs with the same term are equal under every interpretation of the operations
(NaNs and signed zeros included).  The agreement is additionally handed to z3 as a QF_UF validity query on the term DAG."""
import random
import re
import subprocess
import time

from vf import vcalg


def to_smt(dom, roots_a, roots_b):
    """QF_UF script: every node an uninterpreted application over sort U; asserts that some pair differs"""
    lines = ["(set-logic QF_UF)", "(declare-sort U 0)"]
    funs = {}
    defs = []
    need = set()
    stack = list(roots_a) + list(roots_b)
    while stack:
        n = stack.pop()
        if n in need:
            continue
        need.add(n)
        k = dom.nodes[n]
        if k[0] == "app":
            stack.extend(k[2])
        elif k[0] == "ix":
            stack.extend(k[3])
        elif k[0] in ("constarray", "fbits"):
            stack.append(k[1])
    for n in sorted(need):
        k = dom.nodes[n]
        if k[0] == "app":
            args = k[2]
            f = "f_%s_%d" % ("".join(c if c.isalnum() else "_" for c in k[1]), len(args))
        elif k[0] == "ix":
            args = k[3]
            f = "g_%s_%s_%d" % (k[1], "_".join(str(x) for x in k[2]), len(args))
        elif k[0] in ("constarray", "fbits"):
            args = (k[1],)
            f = k[0] + "_1"
        else:
            args = ()
            f = None
        if f is None:
            lines.append("(declare-const n%d U)" % n)
        else:
            if f not in funs:
                funs[f] = len(args)
                lines.append("(declare-fun %s (%s) U)" % (f, " ".join(["U"] * len(args))))
            defs.append("(define-fun n%d () U (%s %s))" % (n, f, " ".join("n%d" % a for a in args)) if args else "(define-fun n%d () U %s)" % (n, f))
    # distinct leaves denote distinct atoms/constants only syntactically; nothing is assumed about them (sound for equality claims)
    lines += defs
    lines.append("(assert (or %s))" % " ".join("(distinct n%d n%d)" % (a, b) for a, b in zip(roots_a, roots_b)) if roots_a else "(assert false)")
    lines.append("(check-sat)")
    return "\n".join(lines)


# ----------------------------------------------------------------------------- writes to shared storage after a marker (C12)
_SYM = re.compile(r"^\|([^|#]+)#(\d+)([^|]*)\|$")
_PRIVATE = re.compile(r"^(goto_symex::|symex::|__CPROVER|vf_in$|vf_nin$|vf_marker$|vf_tid$|VF_OUT\d*$|vf_nowrap$|return_value|nondet|bvfromfloat)")


def shared_writes_after_marker(vc, marker="vf_marker"):
    """The exported VC lists CBMC's SSA assignments in program order.  Symbols of automatic objects carry a frame suffix (`x!0@1`),
    thread-local static objects a thread suffix only (`f::1::p!0`), shared static-lifetime objects and heap objects none.  Returns the
    shared objects that have an assignment both before and after the assignment to `marker` (objects first assigned after the marker are
    heap objects the later calls allocate themselves), as {object: [guard satisfiability unknown symbols...]}; None if there is no marker."""
    names = list(vc.defs.keys())
    pos = None
    for i, n in enumerate(names):
        m = _SYM.match(n)
        if m and m.group(1) == marker and int(m.group(2)) >= 2:
            pos = i
            break
    if pos is None:
        return None
    before = set()
    after = {}
    for i, n in enumerate(names):
        m = _SYM.match(n)
        if not m:
            continue
        base = m.group(1)
        if "!" in base or _PRIVATE.match(base):
            continue
        if i < pos:
            before.add(base)
        else:
            after.setdefault(base, []).append(n)
    return {b: v for b, v in after.items() if b in before}


def _is_phi_copy(vc, name):
    """|x#k+1| defined as |x#k| (or the same element of it): CBMC's merge of two paths that did not write - not a write"""
    m = _SYM.match(name)
    t = vc.defs[name]
    if isinstance(t, str):
        m2 = _SYM.match(t)
        return bool(m2 and m2.group(1) == m.group(1) and m2.group(3) == m.group(3))
    return False


def _replay_inputs(params, rnd):
    """generic operand values for the native confirmation of a term mismatch: small integers mixed with values of large binary exponent
    (a stale table with another divisor / bound / overhead only shows on operands near its limits)"""
    import struct
    out = []
    for k in range(params.get("nin", 64)):
        if params.get("float_inputs", True):
            x = float(rnd.randint(-1000, 1000))
            if k % 2:
                x = (x + 0.5) * 2.0 ** rnd.randint(20, 58)
            out.append(str(struct.unpack("<Q", struct.pack("<d", x))[0]))
        else:
            out.append(str(rnd.getrandbits(62)))
    return out


def check_equal(smt2, params, spec_):
    """params: out_a, out_b (base names of the two output arrays), n (number of elements), nin (replay inputs)"""
    t0 = time.time()
    vc = vcalg.VC(smt2)
    dom = vcalg.UFDom()
    ev = vcalg.Evaluator(vc, dom)
    n = params["n"]
    ra, rb = [], []
    for (oa, ob_) in [(params["out_a"], params["out_b"])] + [tuple(x) for x in params.get("more_pairs", [])]:
        fa, fb = vc.final_versions(oa), vc.final_versions(ob_)
        if n and (len([i for i in fa if i < n]) != n or len([i for i in fb if i < n]) != n):
            return {"status": "INCONCLUSIVE", "detail": "expected %d outputs in %s and %s, found %d / %d" % (n, oa, ob_, len(fa), len(fb))}
        ra += [ev.ev(fa[i]) for i in range(n)]
        rb += [ev.ev(fb[i]) for i in range(n)]
    n = len(ra)
    stats = {"vc_definitions": len(vc.defs), "uf_nodes": len(dom.nodes), "outputs_compared": n, "eval_s": round(time.time() - t0, 2)}
    diff = [i for i in range(n) if ra[i] != rb[i]]
    rnd = random.Random(11)
    if diff:
        def show(x, d=0):
            k = dom.nodes[x]
            if d > 2 or k[0] != "app":
                return k[0] + ":" + str(k[1])[:30]
            return "%s(%s)" % (k[1], ", ".join(show(a, d + 1) for a in k[2]))
        reps = _replay_inputs(params, rnd)
        return {"status": "FAIL", "stats": stats, "replay_inputs": reps,
                "detail": "outputs %s of the two executions are different terms, e.g. [%d]: %s  vs  %s" % (diff[:4], diff[0], show(ra[diff[0]]), show(rb[diff[0]]))}
    if params.get("marker"):
        # C12: after the warm-up calls (marker), no later call through the caching entry point assigns a shared static-lifetime object
        # or a heap object that existed before (tables built during warm-up, operands)
        sw = shared_writes_after_marker(vc, params["marker"])
        if sw is None:
            return {"status": "INCONCLUSIVE", "stats": stats, "detail": "marker assignment %s not found in the exported VC" % params["marker"]}
        sw = {b: [x for x in v if not _is_phi_copy(vc, x)] for b, v in sw.items()}
        sw = {b: v for b, v in sw.items() if v}
        stats["shared_objects_assigned_after_warmup"] = sorted(sw)
        if sw:
            reps = _replay_inputs(params, rnd)
            return {"status": "FAIL", "stats": stats, "replay_inputs": reps, "replay_defs": {"VF_TSAN_REPLAY": None}, "replay_sanitizer": "thread",
                    "detail": "calls after the warm-up assign shared (not thread-local) objects: " + ", ".join("%s (%s)" % (b, v[0]) for b, v in sorted(sw.items())[:4])}
    # cross-check with z3 (congruence closure); only for moderately sized DAGs
    solver_s = 0.0
    if len(dom.nodes) < 200000 and n:
        script = to_smt(dom, ra, rb)
        t1 = time.time()
        p = subprocess.run(["z3", "-in", "-T:120"], input=script, capture_output=True, text=True)
        solver_s = time.time() - t1
        out = p.stdout.strip().split("\n")
        stats["z3_qf_uf"] = out[0] if out else "no answer"
        if not out or out[0] != "unsat":
            return {"status": "INCONCLUSIVE", "stats": stats, "detail": "z3 did not confirm the term identity: %s" % (out[:2],)}
    return {"status": "PASS", "stats": stats, "solver_s": solver_s}


def check_shared_writes(smt2, params, spec_):
    """C12 (module-level entry points): no assignment to shared static storage after the marker.  params: marker, statics_only, nin"""
    t0 = time.time()
    vc = vcalg.VC(smt2)
    sw = shared_writes_after_marker(vc, params.get("marker", "vf_marker"))
    stats = {"vc_definitions": len(vc.defs), "eval_s": round(time.time() - t0, 2)}
    if sw is None:
        return {"status": "INCONCLUSIVE", "stats": stats, "detail": "marker assignment not found in the exported VC"}
    sw = {b: [x for x in v if not _is_phi_copy(vc, x)] for b, v in sw.items()}
    if params.get("statics_only"):
        sw = {b: v for b, v in sw.items() if not b.startswith("symex_dynamic::")}
    if params.get("ignore"):
        # the harness' own bookkeeping objects (e.g. the logging stand-ins' digests), by name
        rx = re.compile(params["ignore"])
        sw = {b: v for b, v in sw.items() if not rx.search(b)}
    sw = {b: v for b, v in sw.items() if v}
    stats["shared_objects_assigned_after_marker"] = sorted(sw)
    stats["assignments_after_marker"] = sum(1 for _ in vc.defs)
    if sw:
        rnd = random.Random(5)
        return {"status": "FAIL", "stats": stats, "replay_inputs": [str(rnd.getrandbits(40)) for _ in range(params.get("nin", 64))],
                "replay_defs": {"VF_TSAN_REPLAY": None}, "replay_sanitizer": "thread",
                "detail": "the call assigns shared (not thread-local) static objects: " + ", ".join("%s (%s)" % (b, v[0]) for b, v in sorted(sw.items())[:4])}
    return {"status": "PASS", "stats": stats}
