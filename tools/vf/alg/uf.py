"""Bit-for-bit agreement of two executions (DESIGN.md 2.4, UF domain): every operation of the exported VC is kept
uninterpreted and hash-consed; two outputs with the same term are equal under every interpretation of the operations
(NaNs and signed zeros included).  The agreement is additionally handed to z3 as a QF_UF validity query on the term DAG."""
import random
import subprocess
import time

from vf import vcalg


def to_smt(dom, roots_a, roots_b):
    """QF_UF script: every node an uninterpreted application over sort U; asserts that some pair differs"""
    lines = ["(set-logic QF_UF)", "(declare-sort U 0)"]
    funs = {}
    defs = []
    need = set()
    stack = list(roots_a) + list(roots_b)
    while stack:
        n = stack.pop()
        if n in need:
            continue
        need.add(n)
        k = dom.nodes[n]
        if k[0] == "app":
            stack.extend(k[2])
        elif k[0] == "ix":
            stack.extend(k[3])
        elif k[0] in ("constarray", "fbits"):
            stack.append(k[1])
    for n in sorted(need):
        k = dom.nodes[n]
        if k[0] == "app":
            args = k[2]
            f = "f_%s_%d" % ("".join(c if c.isalnum() else "_" for c in k[1]), len(args))
        elif k[0] == "ix":
            args = k[3]
            f = "g_%s_%s_%d" % (k[1], "_".join(str(x) for x in k[2]), len(args))
        elif k[0] in ("constarray", "fbits"):
            args = (k[1],)
            f = k[0] + "_1"
        else:
            args = ()
            f = None
        if f is None:
            lines.append("(declare-const n%d U)" % n)
        else:
            if f not in funs:
                funs[f] = len(args)
                lines.append("(declare-fun %s (%s) U)" % (f, " ".join(["U"] * len(args))))
            defs.append("(define-fun n%d () U (%s %s))" % (n, f, " ".join("n%d" % a for a in args)) if args else "(define-fun n%d () U %s)" % (n, f))
    # distinct leaves denote distinct atoms/constants only syntactically; nothing is assumed about them (sound for equality claims)
    lines += defs
    lines.append("(assert (or %s))" % " ".join("(distinct n%d n%d)" % (a, b) for a, b in zip(roots_a, roots_b)) if roots_a else "(assert false)")
    lines.append("(check-sat)")
    return "\n".join(lines)


def check_equal(smt2, params, spec_):
    """params: out_a, out_b (base names of the two output arrays), n (number of elements), nin (replay inputs)"""
    t0 = time.time()
    vc = vcalg.VC(smt2)
    dom = vcalg.UFDom()
    ev = vcalg.Evaluator(vc, dom)
    fa, fb = vc.final_versions(params["out_a"]), vc.final_versions(params["out_b"])
    n = params["n"]
    if n and (len([i for i in fa if i < n]) != n or len([i for i in fb if i < n]) != n):
        return {"status": "INCONCLUSIVE", "detail": "expected %d outputs in %s and %s, found %d / %d" % (n, params["out_a"], params["out_b"], len(fa), len(fb))}
    ra = [ev.ev(fa[i]) for i in range(n)]
    rb = [ev.ev(fb[i]) for i in range(n)]
    stats = {"vc_definitions": len(vc.defs), "uf_nodes": len(dom.nodes), "outputs_compared": n, "eval_s": round(time.time() - t0, 2)}
    diff = [i for i in range(n) if ra[i] != rb[i]]
    rnd = random.Random(11)
    if diff:
        def show(x, d=0):
            k = dom.nodes[x]
            if d > 2 or k[0] != "app":
                return k[0] + ":" + str(k[1])[:30]
            return "%s(%s)" % (k[1], ", ".join(show(a, d + 1) for a in k[2]))
        import struct
        reps = [str(struct.unpack("<Q", struct.pack("<d", float(rnd.randint(-1000, 1000))))[0]) if params.get("float_inputs", True) else str(rnd.getrandbits(62))
                for _ in range(params.get("nin", 64))]
        return {"status": "FAIL", "stats": stats, "replay_inputs": reps,
                "detail": "outputs %s of the two executions are different terms, e.g. [%d]: %s  vs  %s" % (diff[:4], diff[0], show(ra[diff[0]]), show(rb[diff[0]]))}
    # cross-check with z3 (congruence closure); only for moderately sized DAGs
    solver_s = 0.0
    if len(dom.nodes) < 200000 and n:
        script = to_smt(dom, ra, rb)
        t1 = time.time()
        p = subprocess.run(["z3", "-in", "-T:120"], input=script, capture_output=True, text=True)
        solver_s = time.time() - t1
        out = p.stdout.strip().split("\n")
        stats["z3_qf_uf"] = out[0] if out else "no answer"
        if not out or out[0] != "unsat":
            return {"status": "INCONCLUSIVE", "stats": stats, "detail": "z3 did not confirm the term identity: %s" % (out[:2],)}
    return {"status": "PASS", "stats": stats, "solver_s": solver_s}
