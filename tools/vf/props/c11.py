"""C11: memory contract: declared extents and *_tmp_bytes scratch are never exceeded."""
from vf import core
from vf.core import Ob
from vf.props import apigen as ag
from vf.props import vecops_gen as vg
from vf.props import c05


def obligations(ctx):
    t = ag.tables(ctx)
    obs = []
    q = ctx.quick
    sz = (0, 1, 2, 3)
    # DFT-space entry points, both module types
    for nn in ((4, 16) if q else (2, 4, 8, 16)):  # N = 32: 900 s per obligation is not enough on a loaded machine (thorough run of round 6)
        for avx in (0, 1):
            for api in (1, 2, 3, 5):
                for rsz in sz:
                    for asz in sz:
                        if q and (rsz + asz + nn // 4 + avx) % 2:
                            continue
                        obs.append(ag.api_ob(t, api, nn, 0, avx, rsz, asz, asl=nn + (1 if api in (1, 5) and (rsz + asz) % 2 else 0)))
            obs.append(ag.api_ob(t, 4, nn, 0, avx))
            obs.append(ag.api_ob(t, 6, nn, 0, avx))
    for nn in ((4, 8) if q else (2, 4, 8)):  # ntt120 N = 16: idft with 3 output limbs times out (900 s)
        for api in (1, 2, 3):
            for rsz in sz:
                for asz in sz:
                    if q and (rsz + asz) % 2 and nn == 8:
                        continue
                    obs.append(ag.api_ob(t, api, nn, 1, 1, rsz, asz, asl=nn + 2 if api == 1 else nn))
    # the smallest ring dimension of each backend: FFT64 N=2 (m=1), one shape per entry point
    for avx in (0, 1):
        for api in (1, 2, 3, 5):
            obs.append(ag.api_ob(t, api, 2, 0, avx, 2, 1 + avx, asl=3 if api in (1, 5) else 2, tag="n2/"))
        for api in (4, 6):
            obs.append(ag.api_ob(t, api, 2, 0, avx, tag="n2/"))
        for api in (7, 8, 9):
            obs.append(ag.api_ob(t, api, 2, 0, avx, 2, 2, nrows=2, ncols=3, tag="n2/"))
    # "no result depends on output contents before the call": the inverse DFT writing over its own input with more output rows than input rows
    for (rsz, asz) in ((3, 1), (2, 0), (2, 2), (1, 3)):
        for (nn, avx) in ((4, 0), (8, 1)):
            obs.append(ag.api_ob(t, 2, nn, 0, avx, rsz, asz, inplace=True, tag="idft-inplace/"))
    obs.append(ag.api_ob(t, 10, 4, 0, 0, rsz=3))
    obs.append(ag.api_ob(t, 10, 4, 1, 1, rsz=3))
    # VMP: both prepared layouts (N<8 and N>=8), rows/cols up to 3 (cols up to 5 for the odd-last-column paths), sizes 0..3(5)
    for nn in ((4, 8, 16) if q else (2, 4, 8, 16)):
        for avx in (0, 1):
            for nrows in (1, 2, 3):
                for ncols in (1, 2, 3) + ((4, 5) if nn == 8 or not q else ()):
                    if q and (nrows + ncols + avx) % 2 == 0 and ncols < 4:
                        continue
                    obs.append(ag.api_ob(t, 7, nn, 0, avx, nrows=nrows, ncols=ncols))
                    for rsz in (0, 1, 2, 3) + ((5,) if ncols >= 4 else ()):
                        for asz in (0, 1, 2, 3):
                            if q and (rsz * 3 + asz + nrows + nn // 8) % 3:
                                continue
                            obs.append(ag.api_ob(t, 9, nn, 0, avx, rsz, asz, nrows=nrows, ncols=ncols))
                            if (rsz + asz) % 2 == 0 or not q:
                                obs.append(ag.api_ob(t, 8, nn, 0, avx, rsz, asz, asl=nn + 1, nrows=nrows, ncols=ncols))
    # misaligned buffers (8, 16, 24 bytes)
    for offs in (1, 2, 3):
        for (api, nn, mt) in ((1, 8, 0), (2, 8, 0), (5, 16, 0), (6, 8, 0), (8, 8, 0), (9, 16, 0), (7, 8, 0), (1, 4, 1), (2, 4, 1)):
            obs.append(ag.api_ob(t, api, nn, mt, 1, 2, 3, nrows=2, ncols=3, offs=offs))
    # coefficient-space entry points: the C08/C05 harness family already allocates exact extents; a representative slice is re-run here
    for (op, var) in vg.PAIRS:
        for (rsz, asz, bsz) in ((0, 0, 0), (3, 1, 2), (1, 3, 0), (2, 2, 3)):
            if op == 0 and (asz or bsz) and rsz != 3:
                continue
            obs.append(vg.vec_ob(op, var, 4, rsz, asz if op else 0, bsz if op in (3, 4) else 0, (1, 0, 3), avx=(rsz + op) % 2, pmode=0, p=5, tag="coeff/"))
    for (rsz, asz) in ((0, 0), (0, 2), (2, 0), (3, 2), (1, 3)):
        obs.append(Ob("coeff/normalize/res=%d/a=%d" % (rsz, asz), c05.H, "h_vec", {"K": 17, "NN": 2, "RSZ": rsz, "ASZ": asz, "RSL": 3, "ASL": 2, "VIA": 0}, c05.LIBS,
                      unwind=40, family="vec_znx_normalize_base2k"))
        obs.append(Ob("coeff/range-normalize/res=%d/a=%d" % (rsz, asz), c05.H, "h_vec", {"K": 17, "NN": 2, "RSZ": rsz, "RSL": 3, "VIA": 2, "RB": 1, "RE": 1 + 2 * asz if asz else 1, "RS": 2, "BIGSZ": 6},
                      c05.LIBS, unwind=60, family="vec_znx_big_range_normalize_base2k"))
    # the real q120 NTT table builders (concrete execution under cbmc) and their delete functions, N = 1 included
    for nn in (1, 2, 4):
        obs.append(core.Ob("leak/q120_ntt_precomp/n=%d" % nn, "leak_ntt.c", "h_leak_ntt", {"NN": nn}, ["q120/q120_ntt.c", "commons.c", "commons_private.c"], unwind=140,
                           flags=["--memory-leak-check"], family="new/delete pairs", timeout=900,
                           desc="q120_new_ntt_bb_precomp / q120_new_intt_bb_precomp executed for real (ceil(log2()) modelled exactly), then the delete functions: no heap object is live at the end"))
    # NTT120 modules filled / released by the real fill_module_precomp / delete_module_info, two of them alive together (shared with C03)
    from vf.props import c03
    obs += c03.two_module_obs(ctx, tag="leak/ntt120-modules/")
    # new_* / delete_* pairs release what they allocate (cbmc --memory-leak-check)
    for kind in (0, 1):
        for (nn, avx) in ((4, 0), (8, 1), (16, 1)):
            obs.append(core.Ob("leak/%s/N=%d/avx=%d" % ("module_fft64" if kind == 0 else "vec_znx_dft+big+svp_ppol+vmp_pmat", nn, avx), "leak.c", "h_leak",
                               {"KIND": kind, "NN": nn, "MM": nn // 2, "AVX": avx}, ag.LIBS, unwind=200, flags=["--slice-formula", "--memory-leak-check"], inc=[t],
                               family="new/delete pairs", timeout=600,
                               desc="heap MODULE filled by the real fill_module_precomp and released by the real delete_module_info (plus the object allocators of the API): "
                                    "no heap object allocated in the harness is live at its end"))
    # coefficient-space entry points with equal padded strides on exactly-sized buffers (a "same layout" block copy would run sl-N words past the end)
    for (op, var) in vg.PAIRS:
        if var != 0:
            continue
        for (rsz, asz, bsz) in ((2, 2, 2), (1, 3, 1)):
            if op in (5, 6):
                obs.append(vg.vec_ob(op, var, 4, rsz, asz, 0, (3, 3, 3), avx=(rsz + op) % 2, pmode=0, p=5, tag="coeff-eqstride/"))
            else:
                obs.append(vg.vec_ob(op, var, 4, rsz, asz if op else 0, bsz if op in (3, 4) else 0, (3, 3, 3), avx=(rsz + op) % 2, tag="coeff-eqstride/"))
    return obs


def check(ctx, only=None, list_only=False):
    obs = obligations(ctx)
    if only:
        obs = [o for o in obs if only.search(o.name)]
    if list_only:
        for o in obs:
            print(o.name)
        return 0
    core.log("C11: %d obligations" % len(obs))
    res = core.run_all(ctx, obs)
    meta = {
        "functions_encoded": ["vec_znx_dft / vec_znx_idft / vec_znx_idft_tmp_a (fft64 and ntt120)", "svp_prepare", "svp_apply_dft", "znx_small_single_product",
                              "vmp_prepare_contiguous", "vmp_apply_dft", "vmp_apply_dft_to_dft (ref and avx)", "bytes_of_* and *_tmp_bytes", "vec_znx_* / vec_znx_big_* / normalize (slice of C08/C05)",
                              "reim_fft/ifft, reim4 kernels, q120 NTT (through the entry points that call them)"],
        "bounds": "N in {4,16} fft64 / {4,8} ntt120 / {4,8,16} vmp (thorough: 2..16); limb counts 0..3 in both orderings; nrows 1..3, ncols 1..5, res_size up to 5; "
                  "strides N and N+1; misalignment 8/16/24 bytes; both cpu flags; every buffer an exactly-sized heap object",
        "outside": "N above the bound; leak checks of new_*/delete_* pairs and uninitialised-read dependence are not part of this check (C15 covers result independence of prior contents)",
        "assumptions": ["malloc never fails", "CBMC pointer/bounds checks on exactly-sized objects decide extent violations; aligned loads assert alignment in the shim",
                        "table builders not run: precomputed objects built from the dumped tables with exactly the builder's sizes"],
    }
    return core.finish(ctx, res, meta)
