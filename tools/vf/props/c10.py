"""C10: q120 products and layout conversions are exact modulo the 120-bit modulus."""
from vf import core
from vf.core import AlgOb, Ob

LIBS = ["q120/q120_arithmetic_ref.c", "q120/q120_arithmetic_avx2.c", "q120/q120_arithmetic_simple.c", "commons.c", "commons_private.c"]
PRIMES30 = [(1 << 30) - 2 * (1 << 17) + 1, (1 << 30) - 17 * (1 << 17) + 1, (1 << 30) - 23 * (1 << 17) + 1, (1 << 30) - 42 * (1 << 17) + 1]
FUNCS = [(0, "q120_vec_mat1col_product_baa_ref"), (0, "q120_vec_mat1col_product_baa_avx2"),
         (1, "q120_vec_mat1col_product_bbb_ref"), (1, "q120_vec_mat1col_product_bbb_avx2"),
         (2, "q120_vec_mat1col_product_bbc_ref"), (2, "q120_vec_mat1col_product_bbc_avx2"),
         (3, "q120x2_vec_mat1col_product_bbc_ref"), (3, "q120x2_vec_mat1col_product_bbc_avx2"),
         (4, "q120x2_vec_mat2cols_product_bbc_ref"), (4, "q120x2_vec_mat2cols_product_bbc_avx2")]


def _probe(form, ell):
    """max / zero alternating coefficients (one of the property's worst-case patterns): generic operands for the native probe run"""
    M32, M64 = (1 << 32) - 1, (1 << 64) - 1
    xs = 4 if form <= 2 else 8
    ys = {0: 4, 1: 4, 2: 8, 3: 16, 4: 32}[form]
    xm = M32 if form == 0 else M64
    ym = M32 if (form == 0 or form >= 2) else M64
    alt = [str(xm if (i // xs) % 2 else 0) for i in range(xs * ell)] + [str(ym - (i % 3)) for i in range(ys * ell)]
    # the property's other worst-case patterns: maximal x against 32-bit y, complementary high halves, one maximal term at the end
    small_y = [str(xm) for i in range(xs * ell)] + [str(min(ym, M32) - (i % 2)) for i in range(ys * ell)]
    compl = [str(0xAAAAAAAA55555555 & xm) for i in range(xs * ell)] + [str(0x55555555AAAAAAAA & ym) for i in range(ys * ell)]
    last = [str(xm if i >= xs * (ell - 1) else 0) for i in range(xs * ell)] + [str(ym) for i in range(ys * ell)]
    return [alt, small_y, compl, last]


def product_obs(ctx, tdir, ells):
    obs = []
    for (form, fn) in FUNCS:
        for ell in ells:
            obs.append(AlgOb("product/%s/ell=%d" % (fn, ell), "q120prod.c", "h_prod", "vf.alg.q120:check_product",
                             params={"form": form, "ell": ell, "primes": PRIMES30}, defs={"FORM": form, "ELL": ell, "FN": fn}, libs=LIBS,
                             unwind=max(160, 40 * ell + 20), inc=[tdir], family=fn, bit_flags=["--slice-formula"], timeout=600 if ctx.quick else 3000,
                             desc="all operand values of the layout symbolic: each output lane == sum x_i*y_i (mod q_k) as a polynomial identity with "
                                  "integer witness; every add/mul/shift of the real code carries a discharged no-wrap side condition"))
            obs[-1].probe_inputs = _probe(form, ell)
    return obs


def accel_obs(ctx, tdir, L=6, ell_max=10000):
    obs = []
    for (form, fn) in FUNCS:
        obs.append(AlgOb("product-all-ell/%s/ell<=%d" % (fn, ell_max), "q120prod.c", "h_prod", "vf.alg.q120:check_product_accel",
                         params={"form": form, "ell": L, "ell_max": ell_max, "primes": PRIMES30}, defs={"FORM": form, "ELL": L, "FN": fn}, libs=LIBS,
                         unwind=40 * L + 20, inc=[tdir], family=fn + " (all ell)", bit_flags=["--slice-formula"], timeout=900,
                         desc="loop summarisation from the VC of the real kernel at %d iterations: accumulators = objects whose SSA versions grow by one "
                              "iteration's terms; their increments bounded over all operand values; the epilogue re-evaluated on accumulators of up to "
                              "ell_max increments: nothing wraps or loses bits and the result is congruent to the sum for every ell <= ell_max" % L))
    return obs


CONVN = {0: "b_from_znx64", 1: "c_from_znx64", 2: "c_from_b", 3: "add_bbb", 4: "add_ccc", 5: "b_to_znx128", 6: "znx64_to_b_to_znx128"}


def conv_obs(ctx, tdir):
    obs = []
    for conv in range(7):
        for neg in ((0, 1) if conv in (0, 1, 6) else (0,)):
            obs.append(AlgOb("conv/%s%s" % (CONVN[conv], ("/neg" if neg else "/nonneg") if conv in (0, 1, 6) else ""), "q120conv.c", "h_conv",
                             "vf.alg.q120:check_conv", params={"conv": conv, "neg": neg, "primes": PRIMES30}, defs={"CONV": conv, "NEG": neg},
                             libs=LIBS, unwind=40, inc=[tdir], family="q120 conversion " + CONVN[conv], bit_flags=["--slice-formula"],
                             desc="all 64-bit lane / int64 values symbolic (int64 split by sign class): congruence modulo each prime as a polynomial "
                                  "identity, reduced ranges, centered 128-bit lift; % and signed remainder interpreted exactly over the integers"))
    return obs


def block_obs(ctx):
    obs = []
    for nnq in (2, 4, 8) if ctx.quick else (2, 4, 8, 16):
        for blk in range(nnq // 2):
            nrows = (blk + nnq) % 4
            obs.append(core.Ob("block/extract-save/nn=%d/blk=%d/rows=%d" % (nnq, blk, nrows), "q120blk.c", "h_q120blk", {"NNQ": nnq, "BLK": blk, "NROWS": nrows}, LIBS, unwind=4 * nnq * 4 + 12,
                               family="q120 block extract / save", desc="q120x2_extract_1blk_from_q120{b,c}_ref, ..._from_contiguous_q120b_ref, q120x2b_save_1blk_to_q120b_ref on exactly-sized "
                                                                         "symbolic buffers: exact copies of words 8*blk..8*blk+7, only the destination block written, extract after save is the identity"))
    return obs


def obligations(ctx):
    tdir = core.tables_dir(ctx, (), ())
    obs = product_obs(ctx, tdir, [0, 1, 2, 3] if ctx.quick else [0, 1, 2, 3, 4, 8])
    obs += accel_obs(ctx, tdir)
    obs += conv_obs(ctx, tdir)
    obs += block_obs(ctx)
    return obs


def check(ctx, only=None, list_only=False):
    obs = obligations(ctx)
    if only:
        obs = [o for o in obs if only.search(o.name)]
    if list_only:
        for o in obs:
            print(o.name)
        return 0
    core.log("C10: %d obligations" % len(obs))
    res = core.run_all(ctx, obs)
    meta = {
        "functions_encoded": [f for _, f in FUNCS],
        "bounds": "every ell <= 10000 by loop summarisation from the VC at 6 iterations (see C04 / DESIGN.md A.3); executed in full for ell in {0,1,2,3} (thorough: also 4, 8); every operand value of each layout symbolic (a: <2^32, b: any 64-bit, c: first word any "
                  "32-bit value, second word congruent to first*2^32); default 30-bit prime set; precomputed h / 2^e mod q constants dumped from the real builders",
        "outside": "ell between 4 (9) and 10000 as a single solver-decided congruence (wrap-freedom up to 10000 terms is C04's obligation; additivity of the "
                   "accumulators then carries the congruence)",
        "assumptions": ["c-layout contract: second 32-bit word == first * 2^32 modulo the prime (any representative below 2^32)",
                        "derived quantities floor(x/2^k) are treated as free integers in the congruence check (sound: identity for all values)"],
    }
    return core.finish(ctx, res, meta)
