"""C04: q120 lazy modular arithmetic never wraps 64 bits on any in-range operand."""
from vf import core
from vf.core import AlgOb
from vf.props import c03, c10


def big_obs(ctx, tdir, ell, forms=(0, 1, 2, 3, 4)):
    obs = []
    for (form, fn) in c10.FUNCS:
        if form not in forms:
            continue
        obs.append(AlgOb("product-big/%s/ell=%d" % (fn, ell), "q120prod.c", "h_prod_big", "vf.alg.q120:check_product_big",
                         params={"form": form, "ell": ell, "primes": c10.PRIMES30}, defs={"FORM": form, "ELL": ell, "FN": fn, "VF_NOLOG": None},
                         libs=c10.LIBS, unwind=ell + 8, inc=[tdir], family=fn + " (large ell)", skip_bit=True, timeout=1800 if ctx.quick else 7200, mem_gb=14,
                         desc="operands = uninitialised arrays (every value of the layout), kernel loop unrolled ell times by symex, one streaming pass "
                              "of the integer-interval interpreter over the exported VC: every accumulate / recombine step stays inside its word and "
                              "every lane is congruent to the ell-term sum; wrap-freedom at ell implies it for every smaller ell (bounds are monotone)"))
    return obs


def obligations(ctx):
    ns = [2, 4, 8, 16, 32, 64] if ctx.quick else [2, 4, 8, 16, 32, 64, 128, 256]
    tdir = core.tables_dir(ctx, (), ns)
    obs = [o for o in c03.ntt_obs(ctx, tdir, ns) if not o.name.startswith("ntt_then_intt")]
    obs += c10.product_obs(ctx, tdir, [0, 1, 2, 3])
    obs += big_obs(ctx, tdir, 100)      # with congruence
    obs += big_obs(ctx, tdir, 10000, forms=(0, 1, 2))  # MAX_ELL: interval-only streaming run (wrap-freedom)
    # the two-coefficient block forms run the same per-term body on 2 resp. 4 accumulator sets; symbolic execution of 10000 terms needs
    # >20 GB per instance here, so they are unrolled to 2000 terms (their accumulators are bounded term-for-term like the one-column form's)
    obs += big_obs(ctx, tdir, 2000, forms=(3, 4))
    return obs


def check(ctx, only=None, list_only=False):
    obs = obligations(ctx)
    if only:
        obs = [o for o in obs if only.search(o.name)]
    if list_only:
        for o in obs:
            print(o.name)
        return 0
    core.log("C04: %d obligations" % len(obs))
    res = core.run_all(ctx, obs)
    meta = {
        "functions_encoded": ["q120_ntt_bb_avx2", "q120_intt_bb_avx2", "ntt_iter(_red)", "intt_iter(_red)", "ntt_iter_first(_red)", "split_precompmul_si256", "modq_red"]
                             + [f for _, f in c10.FUNCS],
        "bounds": "NTT/iNTT end to end for n in {2..64} (256 thorough), every lane any 64-bit value; products: ell in {0,1,2,3} with the bit-precise memory run, "
                  "ell = 100 (wrap-freedom and congruence) and ell = 10000 = MAX_ELL for the six one-coefficient kernels / ell = 2000 for the four two-coefficient block kernels (wrap-freedom, interval-only streaming interpretation of the unrolled kernel); operands: every value of "
                  "the a / b / c layouts; default 30-bit prime set",
        "outside": "ell in (2000, 10000] for the q120x2 block kernels (memory of the symbolic execution); NTT sizes above 64 (256): the per-level bit-size bookkeeping for n up to 65536 is not yet decided inductively; 29/31-bit prime sets",
        "assumptions": ["a no-wrap obligation is discharged by rigorous interval arithmetic over the exact integer polynomial of each intermediate; an open "
                        "obligation is reported as a violation candidate and replayed on the all-maximal operand pattern",
                        "h and 2^e mod q constants / level metadata dumped from the real builders"],
    }
    return core.finish(ctx, res, meta)
