"""C04: q120 lazy modular arithmetic never wraps 64 bits on any in-range operand."""
from vf import core
from vf.core import AlgOb
from vf.props import c03, c10


def big_obs(ctx, tdir, ell, forms=(0, 1, 2, 3, 4)):
    obs = []
    for (form, fn) in c10.FUNCS:
        if form not in forms:
            continue
        obs.append(AlgOb("product-big/%s/ell=%d" % (fn, ell), "q120prod.c", "h_prod_big", "vf.alg.q120:check_product_big",
                         params={"form": form, "ell": ell, "primes": c10.PRIMES30}, defs={"FORM": form, "ELL": ell, "FN": fn, "VF_NOLOG": None},
                         libs=c10.LIBS, unwind=ell + 8, inc=[tdir], family=fn + " (large ell)", skip_bit=True, timeout=1800 if ctx.quick else 7200, mem_gb=14,
                         desc="operands = uninitialised arrays (every value of the layout), kernel loop unrolled ell times by symex, one streaming pass "
                              "of the integer-interval interpreter over the exported VC: every accumulate / recombine step stays inside its word and "
                              "every lane is congruent to the ell-term sum; wrap-freedom at ell implies it for every smaller ell (bounds are monotone)"))
    return obs


LEVEL_NS = (128, 256, 512, 1024, 2048, 4096, 8192, 16384, 32768, 65536)


def parse_ntt_meta(tdir):
    """level metadata, twiddle maxima and input bit sizes as dumped into vf_tables.h (the harness uses the same header)"""
    import re
    txt = open(tdir + "/vf_tables.h").read()
    out = {}
    for m in re.finditer(r"VFT_(NTT|INTT)_META_(\d+)\[\d+\] = \{(.*?)\};", txt):
        ent = []
        for e in re.finditer(r"\{\{UINT64_C\((\d+)\),UINT64_C\((\d+)\),UINT64_C\((\d+)\),UINT64_C\((\d+)\)\},(\d+),(\d+),UINT64_C\((\d+)\),(\d+)\}", m.group(3)):
            g = [int(x) for x in e.groups()]
            ent.append({"q2bs": g[0:4], "bs": g[4], "half_bs": g[5], "mask": g[6], "reduce": g[7]})
        out[(m.group(1), int(m.group(2)))] = {"meta": ent}
    for m in re.finditer(r"#define VFT_(NTT|INTT)_(TMAX|T1MAX)_(\d+) \{(\d+),(\d+),(\d+),(\d+)\}", txt):
        out.setdefault((m.group(1), int(m.group(3))), {})[m.group(2).lower()] = [int(m.group(i)) for i in (4, 5, 6, 7)]
    for m in re.finditer(r"#define VFT_(NTT|INTT)_INBITS_(\d+) (\d+)", txt):
        out.setdefault((m.group(1), int(m.group(2))), {})["inbits"] = int(m.group(3))
    return out


def level_obs(ctx, ns_small):
    """per-level interval induction: every n = 2^k up to 65536 (metadata-only dump for n beyond the end-to-end runs)"""
    tdir = core.tables_dir(ctx, (), ns_small, LEVEL_NS)
    md = parse_ntt_meta(tdir)
    obs = []
    for n in sorted(set(ns_small) | set(LEVEL_NS)):
        if n < 2:
            continue
        for direction, kind in ((0, "NTT"), (1, "INTT")):
            e = md.get((kind, n))
            if not e or "tmax" not in e or not e["meta"]:
                continue
            obs.append(AlgOb("ntt-levels/%s/n=%d" % ("forward" if direction == 0 else "inverse", n), "ntt.c", "h_ntt_levels", "vf.alg.q120:check_ntt_levels",
                             params={"n": n, "dir": direction, "primes": c10.PRIMES30, "meta": e["meta"], "tmax": e["tmax"], "t1max": e["t1max"], "inbits": e["inbits"]},
                             defs={"LEVELS": None, "N": n, "DIR": direction}, libs=c03.LIBS, unwind=40, inc=[tdir], family="q120 NTT level induction", timeout=900,
                             desc="each level function of the real transform with the real metadata of this n on a block of fresh symbolic vectors: inputs bounded "
                                  "by the interval derived for the previous level, twiddle halves by the maxima of the real table; no add/sub/shift leaves its word "
                                  "and every output is congruent to the butterfly formula (hence no 32x32 multiply dropped operand bits)"))
    return obs


def obligations(ctx):
    ns = [2, 4, 8, 16, 32, 64] if ctx.quick else [2, 4, 8, 16, 32, 64, 128, 256]
    tdir = core.tables_dir(ctx, (), ns)
    obs = [o for o in c03.ntt_obs(ctx, tdir, ns) if not o.name.startswith("ntt_then_intt")]
    obs += level_obs(ctx, ns)
    obs += c10.product_obs(ctx, tdir, [0, 1, 2, 3])
    obs += c10.accel_obs(ctx, tdir)
    obs += big_obs(ctx, tdir, 100)      # with congruence
    if not ctx.quick:
        # the loop summarisation above covers every ell <= 10000; the thorough tier additionally unrolls the kernels in full
        # (symex 40-500 s and up to 14 GB per instance; the x2 forms at 2000 terms, their accumulators being bounded term for term like the others)
        obs += big_obs(ctx, tdir, 10000, forms=(0,))
        obs += big_obs(ctx, tdir, 2000, forms=(1, 2))
    return obs


def check(ctx, only=None, list_only=False):
    obs = obligations(ctx)
    if only:
        obs = [o for o in obs if only.search(o.name)]
    if list_only:
        for o in obs:
            print(o.name)
        return 0
    core.log("C04: %d obligations" % len(obs))
    res = core.run_all(ctx, obs)
    meta = {
        "functions_encoded": ["q120_ntt_bb_avx2", "q120_intt_bb_avx2", "ntt_iter(_red)", "intt_iter(_red)", "ntt_iter_first(_red)", "split_precompmul_si256", "modq_red"]
                             + [f for _, f in c10.FUNCS],
        "bounds": "NTT/iNTT end to end for n in {2..64} (256 thorough), every lane any 64-bit value; NTT/iNTT per-level interval induction for EVERY n = 2^k <= 65536 "
                  "(real level functions + real level metadata of each n, inputs of level l bounded by the interval derived for level l-1, symbolic twiddle halves "
                  "bounded by the maxima of the real table); products: ell in {0,1,2,3} and 100 executed in full (wrap-freedom and congruence), EVERY ell <= 10000 = MAX_ELL "
                  "for all ten kernels by loop summarisation from the VC at 6 iterations (accumulator increments bounded over all operand values, epilogue re-evaluated "
                  "on accumulators of up to 10000 increments); thorough tier: kernels unrolled in full at ell = 10000 (a*a) / 2000 (b*b, b*c); operands: every value "
                  "of the a / b / c layouts; default 30-bit prime set",
        "outside": "for n > 64 (256): that the driver hands level l's metadata and twiddles to level l's function (same loop as for small n; the by-block mode for "
                   "n > 1024 is not executed end to end) and that the twiddle table holds the right powers (exactness for large n is C03's gap); the loop summarisation "
                   "assumes that iterations beyond the 6 unrolled ones execute the same loop body (the 6 unrolled increments are checked to have identical shape and "
                   "bounds); 29/31-bit prime sets",
        "assumptions": ["a no-wrap obligation is discharged by rigorous interval arithmetic over the exact integer polynomial of each intermediate; an open "
                        "obligation is reported as a violation candidate and replayed on the all-maximal operand pattern",
                        "h and 2^e mod q constants / level metadata / per-lane maxima of the twiddle halves dumped from the real builders of the working tree",
                        "a failed level step (its input envelope is an over-approximation) is reported as a violation only if the REAL whole transform of that size "
                        "goes wrong natively on a worst-case or random input (T(x) vs T(x mod q)); otherwise it is inconclusive"],
    }
    return core.finish(ctx, res, meta)
