"""Obligation generators for harness/api.c (DFT-space public entry points), shared by C11, C18, C12."""
from vf import core
from vf.core import Ob

LIBS = ["coeffs/coeffs_arithmetic.c", "coeffs/coeffs_arithmetic_avx.c", "arithmetic/vec_znx.c", "arithmetic/vec_znx_avx.c", "arithmetic/vec_znx_big.c",
        "arithmetic/vec_znx_dft.c", "arithmetic/scalar_vector_product.c", "arithmetic/vector_matrix_product.c", "arithmetic/vector_matrix_product_avx.c",
        "arithmetic/znx_small.c", "reim/reim_fft_ref.c", "reim/reim_ifft_ref.c", "reim/reim_fft_ifft.c", "reim/reim_execute.c", "reim/reim_fft_avx2.c",
        "reim/reim_ifft_avx2.c", "reim/reim_fft4_avx_fma.c", "reim/reim_fft8_avx_fma.c", "reim/reim_ifft4_avx_fma.c", "reim/reim_ifft8_avx_fma.c",
        "reim/reim_fft16_avx_fma.s", "reim/reim_ifft16_avx_fma.s", "reim/reim_conversions.c", "reim/reim_conversions_avx.c", "reim/reim_fftvec_addmul_ref.c",
        "reim/reim_fftvec_addmul_fma.c", "reim4/reim4_arithmetic_ref.c", "reim4/reim4_arithmetic_avx2.c", "q120/q120_ntt.c", "q120/q120_ntt_avx2.c",
        "q120/q120_arithmetic_simple.c", "commons.c", "commons_private.c"]
APIN = {1: "vec_znx_dft", 2: "vec_znx_idft", 3: "vec_znx_idft_tmp_a", 4: "svp_prepare", 5: "svp_apply_dft", 6: "znx_small_single_product",
        7: "vmp_prepare_contiguous", 8: "vmp_apply_dft", 9: "vmp_apply_dft_to_dft", 10: "bytes_of"}
NNS_ALL = (1, 2, 4, 8, 16, 32)


def tables(ctx):
    nns = NNS_ALL if ctx.quick else NNS_ALL + (64,)
    return core.tables_dir(ctx, tuple(sorted({n // 2 for n in nns if n >= 2} | {1})), nns)


def api_ob(tdir, api, nn, mt=0, avx=0, rsz=2, asz=2, asl=None, nrows=2, ncols=2, offs=0, flags=("--slice-formula",), tag="", timeout=None, arena=0, inplace=False):
    d = {"API": api, "NN": nn, "MM": nn // 2, "MT": mt, "AVX": avx, "RSZ": rsz, "ASZ": asz, "ASL": asl if asl is not None else nn, "NROWS": nrows, "NCOLS": ncols, "OFFS": offs}
    if arena:
        d["ARENA"] = arena
    if inplace:
        d["INPLACE_IDFT"] = None
    name = "%s%s/%s/N=%d/avx=%d" % (tag, APIN[api], "ntt120" if mt else "fft64", nn, avx)
    if api in (1, 2, 3, 5, 8, 9):
        name += "/res=%d/a=%d" % (rsz, asz)
    if api in (1, 5, 8):
        name += "/asl=N+%d" % (d["ASL"] - nn)
    if api in (7, 8, 9):
        name += "/rows=%d/cols=%d" % (nrows, ncols)
    if offs:
        name += "/offs=%d" % (8 * offs)
    if inplace:
        name += "/inplace"
    if arena:
        name += "/arena=%s" % ("fwd" if arena == 1 else "rev")
        # one object holds every buffer: keep its elements as separate SSA symbols (default limit 64), otherwise every access goes through the array theory
        flags = tuple(flags) + ("--max-field-sensitivity-array-size", "4096")
        timeout = timeout or 600
    o = Ob(name, "api.c", "h_api", d, LIBS, unwind=600, flags=list(flags), inc=[tdir], family=APIN[api] + (" ntt120" if mt else ""), timeout=timeout, mem_gb=12,
           desc="public entry point on exactly-sized heap buffers (bytes_of_*, *_tmp_bytes from the real functions), all data symbolic: every read/write "
                "inside the declared extents, sources / module / tables bit-identical afterwards, rows beyond the input size zero")
    # generic operand words for the native confirmation when the solver's trace carries no data (the formula is sliced: values are irrelevant to
    # extents, but a source overwritten by a transform only shows on non-zero data): bit patterns of small distinct doubles
    import struct
    o.probe_inputs = [str(struct.unpack("<Q", struct.pack("<d", 1.0 + ((37 * i + 11) % 101) / 8.0))[0]) for i in range(1600)]
    return o


def api_writeset_ob(tdir, api, nn, mt=0, avx=0, rsz=2, asz=2, nrows=2, ncols=2, tag="writeset/"):
    """C12: the entry point assigns no shared static-lifetime object (SSA write set of the exported, unsliced VC; vf.alg.uf:check_shared_writes)"""
    o = api_ob(tdir, api, nn, mt, avx, rsz, asz, None, nrows, ncols, 0, tag=tag)
    a = core.AlgOb(o.name, "api.c", "h_api", "vf.alg.uf:check_shared_writes", params={"marker": "vf_marker", "statics_only": True, "nin": 600},
                   defs=o.defs, libs=LIBS, unwind=600, inc=[tdir], family=o.family + " (write set)", timeout=600, mem_gb=12,
                   dialect="--z3" if mt else "--smt2",
                   desc="after the module is built, the call assigns no static-lifetime object other than thread-local ones: no lazily initialised shared "
                        "table, no static scratch buffer (CBMC's SSA assignments of the whole call, unsliced)")
    return a
