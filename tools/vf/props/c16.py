"""C16: pipelines of API calls compute the corresponding expression in Z[X]/(X^N+1).

(a) compositional: C01, C02, C03, C05, C08, C09 are all stated against the same representation conventions (what a DFT limb, a
    prepared scalar/matrix, a big limb, an NTT120 residue quadruple mean) and each is decided for all inputs of its box, so any
    well-typed sequence composes inside the precision budgets; (b) direct pipelines, decided end to end on the real code."""
from vf import core
from vf.core import Ob, AlgOb
from vf.props import apigen as ag, c01, c10


def ntt_module_obs(ctx, t, sizes=((1, (0, 1)), (2, (0, 1, 2, 3)), (4, (0, 15, 5)), (8, (0, 0xA5)))):
    """NTT120 module pipeline: dft -> idft (both variants), all coefficient sign classes for N<=2, representative ones for N=4,8 (shared with C03)"""
    obs = []
    for (nn, masks) in sizes:
        for m in masks:
            for tmpa in (0, 1):
                for (rsz, asz) in ((1, 1),) + (((2, 1), (1, 2)) if (nn == 4 and m == 5) or (nn == 1 and m == 1) else ()):
                    d = {"NN": nn, "MM": max(nn // 2, 1), "NEGMASK": m, "RSZ": rsz, "ASZ": asz}
                    if tmpa:
                        d["TMPA"] = None
                    probe = [str(x) for x in ([0, 1, (1 << 63) - 1, 1 << 54, 3, (1 << 63) - 2, 12345, 1 << 62] * ((asz * nn + 7) // 8))[:asz * nn]]
                    obs.append(AlgOb("ntt120/dft-idft%s/N=%d/signs=%d/res=%d/a=%d" % ("_tmp_a" if tmpa else "", nn, m, rsz, asz), "pipe.c", "h_pipe_ntt",
                                     "vf.alg.q120:check_ntt_module_roundtrip", params={"nn": nn, "rsz": rsz, "asz": asz, "negmask": m, "primes": c10.PRIMES30},
                                     defs=d, libs=ag.LIBS, unwind=200, inc=[t], family="ntt120 dft->idft", timeout=900, dialect="--z3",
                                     desc="every int64 coefficient of the given sign classes: the 128-bit result of vec_znx_idft(vec_znx_dft(a)) is congruent to a modulo the four "
                                          "primes and centered, hence equal to a; extra output limbs are zero"))
                    obs[-1].probe_inputs = probe  # coefficients at both ends of each sign class (0, 1, 2^63-1 ... and, for the negative class, INT64_MIN + the same)
    return obs


def obligations(ctx):
    t = ag.tables(ctx)
    obs = []
    # integer pipeline, bit-precise: rotate -> automorphism -> add -> normalize (p1, p2 symbolic), both dispatch flags
    for nn in ((2,) if ctx.quick else (2, 4)):
        for k in (3, 16, 45):
            for avx in (0, 1):
                obs.append(Ob("int/rotate-automorphism-add-normalize/N=%d/k=%d/avx=%d" % (nn, k, avx), "pipe.c", "h_pipe_int", {"NN": nn, "MM": max(nn // 2, 1), "K": k, "AVX": avx},
                              ag.LIBS, unwind=80, inc=[t], family="integer pipeline", timeout=900 if ctx.quick else 3600,
                              unwindset=",".join("%s.%d:%d" % (f, i, nn + 2) for f, n in (("znx_rotate_i64", 4), ("znx_rotate_inplace_i64", 2), ("znx_automorphism_inplace_i64", 6)) for i in range(n)),
                              desc="4 public calls on symbolic 2-limb vectors with symbolic p1, odd p2: result equals the balanced digits of sigma_p2(x*X^p1)+y computed in 128-bit arithmetic"))
    # integer pipeline through the big-coefficient space with fewer / as many / more output limbs than the big vector has
    for rszb in (1, 2, 3, 4):
        for rng in (0, 1):
            d = {"NN": 2, "MM": 1, "K": (16, 45)[rszb % 2], "AVX": rszb % 2, "RSZB": rszb}
            if rng:
                d["RANGE"] = None
            obs.append(Ob("int/add-bigrotate-bignormalize%s/N=2/k=%d/res=%d/big=3" % ("-range" if rng else "", d["K"], rszb), "pipe.c", "h_pipe_big", d, ag.LIBS, unwind=80, inc=[t],
                          family="integer pipeline through big space", timeout=900,
                          unwindset=",".join("%s.%d:%d" % (f, i, 4) for f, n in (("znx_rotate_i64", 4), ("znx_rotate_inplace_i64", 2)) for i in range(n)),
                          desc="3 public calls on symbolic 3-limb vectors with symbolic p: the result limbs are the balanced digits of (x+y)*X^p computed in 128-bit arithmetic, "
                               "including the carries of big limbs that have no counterpart in a shorter output"))
    # integer pipeline starting with an in-place resize of a vector inside its own buffer
    for keep in (1, 2, 3):
        for avx in (0, 1):
            obs.append(Ob("int/inplace-copy-negate-add-normalize/N=2/k=%d/keep=%d/avx=%d" % ((16, 45)[keep % 2], keep, avx), "pipe.c", "h_pipe_copy",
                          {"NN": 2, "MM": 1, "K": (16, 45)[keep % 2], "AVX": avx, "KEEP": keep}, ag.LIBS, unwind=80, inc=[t], family="integer pipeline with in-place steps", timeout=900,
                          desc="vec_znx_copy with res == a (keep the first limbs, zero-extend to 3), in-place negate, add, normalize on symbolic 3-limb vectors: "
                               "the digits of -trunc(v) + y computed in 128-bit arithmetic"))
    obs += ntt_module_obs(ctx, t)
    # FFT64 pipelines of 3-4 public calls (shared analysis with C01/C02), shapes different from those checks
    for nn in (4, 8):
        for avx in (0, 1):
            obs.append(c01.prod_ob(t, 1, nn, avx, 2, 3, asl=nn + 2, tmpa=True, tag="fft64/"))
            obs.append(c01.prod_ob(t, 2, nn, avx, 2, 2, asl=nn + 3, nrows=2, ncols=2, tag="fft64/"))
            obs.append(c01.prod_ob(t, 3, nn, avx, 3, 3, nrows=3, ncols=3, tag="fft64/"))
    # aliasing choices inside a pipeline: the small product written over its first / second operand
    for (nn, avx, pal) in ((8, 1, 2), (8, 0, 1), (4, 1, 2)):
        obs.append(c01.prod_ob(t, 0, nn, avx, palias=pal, tag="fft64/"))
    # matrix pipelines whose output is truncated to an odd number of columns below the matrix width (the column-pair layout of the prepared matrix is the seam)
    for avx in (0, 1):
        obs.append(c01.prod_ob(t, 2, 8, avx, 3, 2, nrows=2, ncols=4, tag="fft64/"))
        obs.append(c01.prod_ob(t, 3, 8, avx, 3, 2, nrows=2, ncols=5, tag="fft64/"))
        obs.append(c01.prod_ob(t, 3, 8, avx, 1, 2, nrows=2, ncols=2, tag="fft64/"))
    return obs


def check(ctx, only=None, list_only=False):
    obs = obligations(ctx)
    if only:
        obs = [o for o in obs if only.search(o.name)]
    if list_only:
        for o in obs:
            print(o.name)
        return 0
    core.log("C16: %d obligations" % len(obs))
    res = core.run_all(ctx, obs)
    meta = {
        "functions_encoded": ["vec_znx_rotate -> vec_znx_automorphism -> vec_znx_add -> vec_znx_normalize_base2k", "ntt120 vec_znx_dft -> vec_znx_idft / idft_tmp_a",
                              "svp_prepare -> svp_apply_dft -> vec_znx_idft_tmp_a", "vmp_prepare_contiguous -> [vec_znx_dft ->] vmp_apply_dft[_to_dft] -> vec_znx_idft_tmp_a"],
        "bounds": "add_small2 -> big rotate -> big (range) normalize with 1..4 output limbs for a 3-limb big vector (N=2, symbolic data and p); fixed pipelines of 2-4 public calls at N in {2,4,8} (integer pipeline: N=2 quick, N=4 thorough - 4 to 14 minutes per instance); operands symbolic (|x| <= 2^60 for the integer pipeline, all int64 by sign class for NTT120, real symbolic for FFT64)",
        "outside": "random well-typed programs of length ~40 are not generated: arbitrary sequences are covered only by the compositional argument (a) over the per-operation "
                   "claims C01-C03, C05, C08, C09 within their bounds; pipelines mixing FFT64 products with the integer tail (big_add_small, big normalize) are not executed end to end",
        "assumptions": ["compositional argument: each producer establishes and each consumer assumes the same representation predicate", "as in C01/C02/C03 for the reused analyses"],
    }
    return core.finish(ctx, res, meta)
