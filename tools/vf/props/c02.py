"""C02: vector-matrix product (VMP) equals the naive polynomial product for all shapes."""
from vf import core
from vf.props import apigen as ag
from vf.props import c01


def obligations(ctx):
    t = ag.tables(ctx)
    obs = []
    q = ctx.quick
    # N=4: plain column-major layout (N<8); N=8: block layout with 1 block; N=16: 2 blocks
    for nn in (4, 8, 16):
        for avx in (0, 1):
            for nrows in (1, 2, 3):
                for ncols in (1, 2, 3, 4, 5):
                    for rsz in (0, 1, 2, 3, 5):
                        for asz in (0, 1, 2, 3):
                            if rsz > ncols + 1 or (ncols >= 4 and rsz not in (3, 5)) or (ncols >= 4 and asz not in (1, 3)):
                                continue
                            key = (nn // 4 + avx + nrows * 3 + ncols * 5 + rsz * 7 + asz * 11)
                            if q and nn == 16 and key % 4:
                                continue
                            if q and nn != 16 and key % 2:
                                continue
                            path = 2 if key % 4 < 2 else 3
                            # stride of the coefficient-space input: N or N+1, chosen independently of the quick-tier thinning above
                            obs.append(c01.prod_ob(t, path, nn, avx, rsz, asz, asl=nn + ((nrows + asz + ncols) % 2), nrows=nrows, ncols=ncols))
    # the smallest ring dimension (N=2, m=1: the FFT is the identity, one coefficient pair per limb) on a few shapes, both paths and cpu flags
    for avx in (0, 1):
        for (nrows, ncols, rsz, asz) in ((1, 1, 1, 1), (2, 3, 3, 2), (3, 2, 3, 1), (2, 2, 2, 0)):
            for path in (2, 3):
                obs.append(c01.prod_ob(t, path, 2, avx, rsz, asz, asl=3, nrows=nrows, ncols=ncols, tag="n2/"))
    # both entry points on the very same shape (apply from coefficients vs apply to the DFT of the same vector): same polynomial
    for nn in (4, 8):
        for (nrows, ncols, rsz, asz) in ((2, 3, 3, 2), (3, 2, 1, 3), (1, 1, 1, 1), (2, 5, 3, 1)):
            for path in (2, 3):
                obs.append(c01.prod_ob(t, path, nn, 1, rsz, asz, nrows=nrows, ncols=ncols, tag="pair/"))
    seen, out = set(), []
    for o in obs:
        if o.name not in seen:
            seen.add(o.name)
            out.append(o)
    return out


def check(ctx, only=None, list_only=False):
    obs = obligations(ctx)
    if only:
        obs = [o for o in obs if only.search(o.name)]
    if list_only:
        for o in obs:
            print(o.name)
        return 0
    core.log("C02: %d obligations" % len(obs))
    res = core.run_all(ctx, obs)
    meta = {
        "functions_encoded": ["fft64_vmp_prepare_contiguous_{ref,avx}", "fft64_vmp_apply_dft_{ref,avx}", "fft64_vmp_apply_dft_to_dft_{ref,avx}", "fft64_vec_znx_dft",
                              "fft64_vec_znx_idft_tmp_a", "reim4 extract/save/dot-product kernels", "reim_fftvec_mul/addmul (N<8 path)", "*_tmp_bytes / bytes_of_vmp_pmat"],
        "bounds": "N in {4 (column-major layout), 8, 16 (block layout)}; nrows 1..3, ncols 1..5, res_size in {0,1,2,3,5}, a_size 0..3 (half of the combinations in the quick tier, "
                  "a quarter at N=16), a stride N or N+1, both cpu flags, both entry points; all matrix and vector coefficients symbolic",
        "outside": "N >= 32, matrices larger than 3x5; the 'within the C01 budget summed over rows' bound is certified with the measured 1-norm constant only (see C01)",
        "assumptions": ["C14 conversion contracts (stubs)", "IEEE-754 standard model, no overflow/underflow", "tables dumped from the real builders"],
    }
    return core.finish(ctx, res, meta)
