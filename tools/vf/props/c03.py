"""C03: NTT120 transform is an exact, invertible negacyclic transform on all 64-bit data."""
from vf import core
from vf.core import AlgOb
from vf.props import c10

LIBS = ["q120/q120_ntt.c", "q120/q120_ntt_avx2.c", "q120/q120_arithmetic_simple.c", "commons.c", "commons_private.c"]
OMEGAS30 = [1070907127, 315046632, 309185662, 846468380]
DN = {0: "ntt", 1: "intt", 2: "ntt_then_intt"}


def ntt_obs(ctx, tdir, ns):
    obs = []
    for n in ns:
        for d in (0, 1, 2):
            obs.append(AlgOb("%s/n=%d" % (DN[d], n), "ntt.c", "h_ntt", "vf.alg.q120:check_ntt",
                             params={"n": n, "dir": d, "primes": c10.PRIMES30, "omegas": OMEGAS30}, defs={"N": n, "DIR": d}, libs=LIBS,
                             unwind=max(4 * n + 8, 48), inc=[tdir], family="q120_%s_bb_avx2" % DN[d], bit_flags=["--slice-formula"],
                             timeout=900 if ctx.quick else 3600, mem_gb=16,
                             desc="all 4n 64-bit input lanes symbolic: every output lane is, modulo its prime, the linear form of the evaluation map "
                                  "at the primitive 2n-th roots (some order) / its inverse / the identity for the round trip; every lazy add, "
                                  "subtract and 32x32 partial product carries a discharged no-wrap obligation"))
    return obs


def byblock_obs(ctx, tdir):
    """the block-by-block schedule that the library uses for n > CHANGE_MODE_N = 1024, executed end to end at small n with the threshold lowered
    (front-end rewrite: the #define is put under #ifndef; nothing else differs from the library's code)"""
    obs = []
    for (n, cm) in (((16, 4), (32, 8)) if ctx.quick else ((16, 4), (32, 4), (32, 8), (64, 16))):
        for d in (0, 1, 2):
            obs.append(AlgOb("%s-byblock/n=%d/CHANGE_MODE_N=%d" % (DN[d], n, cm), "ntt.c", "h_ntt", "vf.alg.q120:check_ntt",
                             params={"n": n, "dir": d, "primes": c10.PRIMES30, "omegas": OMEGAS30}, defs={"N": n, "DIR": d}, libs=LIBS, libdefs=("CHANGE_MODE_N=%d" % cm,),
                             unwind=max(4 * n + 8, 48), inc=[tdir], family="q120_%s_bb_avx2 (by-block schedule)" % DN[d], bit_flags=["--slice-formula"],
                             timeout=900, mem_gb=16,
                             desc="as the end-to-end obligations, with the level-by-level / block-by-block switch at %d instead of 1024: the by-block branch of the driver "
                                  "(used by the library for n > 1024) computes the same evaluation map / inverse / identity and never wraps" % cm))
    return obs


def obligations(ctx):
    ns = [1, 2, 4, 8, 16, 32, 64] if ctx.quick else [1, 2, 4, 8, 16, 32, 64, 128, 256]
    tdir = core.tables_dir(ctx, (), ns)
    obs = ntt_obs(ctx, tdir, ns)
    obs += byblock_obs(ctx, tdir)
    # module-level conversions used by ntt120_vec_znx_dft / idft (int64 -> residues, centered CRT lift, round trip on all of int64)
    obs += [o for o in c10.conv_obs(ctx, tdir) if any(x in o.name for x in ("b_from_znx64", "b_to_znx128", "znx64_to_b"))]
    # the module-level clause: NTT120 vec_znx_dft followed by vec_znx_idft / idft_tmp_a returns exactly the int64 input (N = 1 included)
    from vf.props import c16, apigen
    obs += c16.ntt_module_obs(ctx, apigen.tables(ctx))
    # zero-extension on the NTT120 backend with an empty / shorter input: output limbs beyond the input size exactly zero whatever the buffers held (bit-precise)
    tt = apigen.tables(ctx)
    for nn in (2, 4):
        for api in (1, 2, 3):
            for (rsz, asz) in ((2, 0), (1, 0), (3, 1)):
                obs.append(apigen.api_ob(tt, api, nn, 1, 1, rsz, asz, tag="zero-rows/"))
    obs += two_module_obs(ctx)
    return obs


def two_module_obs(ctx, tag="modules/"):
    """two NTT120 modules of different ring dimensions alive together, filled and released by the real fill_module_precomp / delete_module_info"""
    from vf.props import apigen
    obs = []
    for (na, nb) in ((8, 4), (4, 8), (2, 1)):
        obs.append(core.Ob("%stwo-alive/N=%d+N=%d" % (tag, na, nb), "leak_ntt.c", "h_two_modules", {"NN": na, "NB": nb, "AVX": 1}, apigen.LIBS, unwind=140,
                           flags=["--memory-leak-check"], family="NTT120 module lifetime", timeout=1500,
                           desc="two NTT120 modules with different N filled by the real fill_module_precomp and released by the real delete_module_info (table builders replaced by "
                                "light stand-ins with the same object structure; the real builder/delete pairs are C11's): building and deleting the second module leaves the first "
                                "module's tables valid heap objects with unchanged contents; deleting both frees nothing twice and leaves nothing live"))
    return obs


def check(ctx, only=None, list_only=False):
    obs = obligations(ctx)
    if only:
        obs = [o for o in obs if only.search(o.name)]
    if list_only:
        for o in obs:
            print(o.name)
        return 0
    core.log("C03: %d obligations" % len(obs))
    res = core.run_all(ctx, obs)
    meta = {
        "functions_encoded": ["q120_ntt_bb_avx2", "q120_intt_bb_avx2", "ntt_iter", "ntt_iter_red", "intt_iter", "intt_iter_red", "ntt_iter_first", "ntt_iter_first_red",
                              "split_precompmul_si256", "modq_red (through the intrinsics shim)", "q120_b_from_znx64_simple", "q120_b_to_znx128_simple"],
        "bounds": "NTT120 module round trip vec_znx_dft -> vec_znx_idft / idft_tmp_a for N in {1,2,4,8} (every int64 coefficient by sign class, sizes 1-2); end-to-end transforms n in {1,2,4,8,16,32,64} (thorough: 128, 256) on the level metadata and power tables dumped from the real "
                  "q120_new_{ntt,intt}_bb_precomp; all 4n lanes any 64-bit value; conversions on all of int64 (split by sign) and all 64-bit residues",
        "outside": "n > 64 (256): in particular the level-by-level -> block-by-block switch at n = 1024 is not executed; the convolution theorem is a "
                   "consequence of the evaluation-map structure and is not separately checked; module-level vec_znx_dft/idft size/stride handling is C08/C11/C18 territory",
        "assumptions": ["default 30-bit prime set", "omega tables produced by the real builder (checked here only through the transform identities)"],
    }
    return core.finish(ctx, res, meta)
