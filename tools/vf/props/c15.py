"""C15: results depend only on arguments: no hidden state, history or alignment."""
from vf import core
from vf.core import AlgOb
from vf.props import apigen as ag
from vf.props import vecops_gen as vg

SLIBS = ["reim/reim_fft_ref.c", "reim/reim_ifft_ref.c", "reim/reim_fft_ifft.c", "reim/reim_execute.c", "reim/reim_fft_avx2.c", "reim/reim_ifft_avx2.c",
         "reim/reim_fft4_avx_fma.c", "reim/reim_fft8_avx_fma.c", "reim/reim_ifft4_avx_fma.c", "reim/reim_ifft8_avx_fma.c", "reim/reim_fft16_avx_fma.s",
         "reim/reim_ifft16_avx_fma.s", "reim/reim_conversions.c", "reim/reim_conversions_avx.c", "reim/reim_fftvec_addmul_ref.c", "reim/reim_fftvec_addmul_fma.c",
         "reim4/reim4_fftvec_addmul_ref.c", "reim4/reim4_fftvec_addmul_fma.c", "reim4/reim4_fftvec_conv_ref.c", "reim4/reim4_fftvec_conv_fma.c", "reim4/reim4_execute.c",
         "cplx/cplx_conversions.c", "cplx/cplx_conversions_avx2_fma.c", "cplx/cplx_fftvec_ref.c", "cplx/cplx_fftvec_avx2_fma.c", "cplx/cplx_execute.c", "cplx/cplx_common.c",
         "commons.c", "commons_private.c"]
FUNN = {0: "reim_fftvec_mul_simple", 1: "reim_fftvec_addmul_simple", 2: "reim4_fftvec_mul_simple", 3: "reim4_fftvec_addmul_simple", 4: "reim4_from_cplx_simple",
        5: "reim4_to_cplx_simple", 6: "reim_from_znx64_simple", 7: "reim_to_znx64_simple", 8: "cplx_from_znx32_simple", 9: "cplx_from_tnx32_simple",
        10: "cplx_to_tnx32_simple", 11: "cplx_fftvec_mul_simple", 12: "cplx_fftvec_addmul_simple"}
FUNN.update({13: "reim_fft_simple", 14: "reim_ifft_simple", 15: "cplx_fft_simple", 16: "cplx_ifft_simple"})
XLIBS = ["cplx/cplx_fft_ref.c", "cplx/cplx_ifft_ref.c", "cplx/cplx_fft_avx2_fma.c", "cplx/cplx_ifft_avx2_fma.c", "cplx/cplx_fft16_avx_fma.s", "cplx/cplx_ifft16_avx_fma.s",
         "cplx/cplx_fft_asserts.c"]
HAS_PARAMS = (7, 10)  # functions whose cache must also be keyed by divisor / bound


def history_obs(ctx):
    obs = []
    for fun in sorted(FUNN):
        if fun >= 13:
            continue  # (i)fft *_simple through the real table builders with cos/sin uninterpreted: tried, every instance runs past 15 minutes - not claimed
        minm = 4 if fun in (2, 3, 4, 5) else (8 if fun in (8, 9, 10) else 1)
        dims = [(minm, 2 * minm), (2 * minm, minm)] + ([(8, 16)] if minm < 8 else [])
        if fun >= 13:
            dims = [(4, 8), (8, 4), (2, 16)]  # the table builders run under cbmc (cos/sin uninterpreted); m <= 16: the drivers' own log2() is not reached
        for (m1, m2) in dims:
            for avx in (0, 1):
                variants = [({"D1": 0, "D2": 3, "B1": 50 if fun == 7 else 18, "B2": 63 if fun == 7 else 18}, "")]
                if fun in HAS_PARAMS:
                    # one parameter changes at a time, so that a cache key that forgets either of them serves a stale table
                    b_a, b_b = (63, 50) if fun == 7 else (18, 30)
                    variants.append(({"D1": 2, "D2": 5, "B1": b_a, "B2": b_a, "SAMEDIM_OTHER_PARAMS": None}, "/same-dim-other-divisor"))
                    variants.append(({"D1": 3, "D2": 3, "B1": b_a, "B2": b_b, "SAMEDIM_OTHER_PARAMS": None}, "/same-dim-other-bound"))
                    variants.append(({"D1": 0, "D2": 4, "B1": b_b, "B2": b_a, "SAMEDIM_OTHER_PARAMS": None}, "/same-dim-other-params"))
                for (pd, tag) in variants:
                    d = {"FUN": fun, "M1": m1, "M2": m2, "AVX": avx}
                    d.update(pd)
                    prm = {"out_a": "VF_OUT", "out_b": "VF_OUT2", "n": 2 * m1, "nin": 12 * max(m1, m2), "float_inputs": fun not in (6, 8, 9), "marker": "vf_marker"}
                    if "SAMEDIM_OTHER_PARAMS" in pd:
                        prm["more_pairs"] = [["VF_OUT3", "VF_OUT4"]]  # the same-dimension / other-parameters call against a fresh table for ITS parameters
                    obs.append(AlgOb("history/%s/m1=%d/m2=%d/avx=%d%s" % (FUNN[fun], m1, m2, avx, tag), "simple.c", "h_simple", "vf.alg.uf:check_equal",
                                     params=prm,
                                     defs=d, libs=SLIBS + (XLIBS if fun >= 15 else []), unwind=200, family=FUNN[fun], timeout=900,
                                     desc="f(M1,P1); f(M2,P2); [f(M1,P2);] f(M1,P1) through the caching entry point vs the same operation on a freshly "
                                          "initialised table: every output of the last call is the same uninterpreted term (hence the same bits)"))
    return obs


def simple_all_obs(ctx):
    """the (i)fft *_simple caches over every supported dimension 2^0..2^16 (table builders replaced by recording stand-ins)"""
    from vf.core import Ob
    obs = []
    names = {0: ("reim_fft_simple", "new_reim_fft_precomp"), 1: ("reim_ifft_simple", "new_reim_ifft_precomp"),
             2: ("cplx_fft_simple", "new_cplx_fft_precomp"), 3: ("cplx_ifft_simple", "new_cplx_ifft_precomp")}
    for kind, (fn, builder) in names.items():
        libs = ["reim/reim_fft_ref.c", "reim/reim_ifft_ref.c", "commons_private.c", "commons.c"] if kind < 2 else \
               ["cplx/cplx_fft_ref.c", "cplx/cplx_ifft_ref.c", "commons_private.c", "commons.c"]
        o = Ob("all-dimensions/%s/m=1..65536" % fn, "simple_all.c", "h_simple_all", {"KIND": kind}, libs, unwind=40, family=fn + " (every dimension)", timeout=600,
               desc="two sweeps over all 17 dimensions through the caching entry point with the table builder replaced by a recording stand-in: every call is served by "
                    "the table built for its own dimension and each table is built once")
        o.stubs = [builder]
        obs.append(o)
    return obs


def thread_history_obs(ctx):
    """C12: two-thread call-granularity histories over the thread-local caches (harness/simple.c h_simple_threads)"""
    obs = []
    for fun in HAS_PARAMS:
        b_a, b_b = (63, 50) if fun == 7 else (18, 30)
        for avx in (0, 1):
            for (pd, ptag) in (({"D1": 3, "D2": 3, "B1": b_a, "B2": b_b}, "other-bound"), ({"D1": 2, "D2": 5, "B1": b_a, "B2": b_a}, "other-divisor")):
                # (thread, parameter set) of the two calls preceding the call under test, which is (thread 0, P1)
                for (ta, pa, tb, pb) in ((0, 2, 1, 1), (0, 1, 1, 2), (1, 2, 0, 2)):
                    d = {"FUN": fun, "M1": 8, "M2": 8, "AVX": avx, "THREADS": None, "TA": ta, "PA": pa, "TB": tb, "PB": pb}
                    d.update(pd)
                    obs.append(AlgOb("threads/%s/m=8/avx=%d/%s/T%d:P%d,T%d:P%d,T0:P1" % (FUNN[fun], avx, ptag, ta, pa, tb, pb), "simple.c", "h_simple_threads",
                                     "vf.alg.uf:check_equal", params={"out_a": "VF_OUT", "out_b": "VF_OUT2", "n": 16, "nin": 200, "float_inputs": True},
                                     defs=d, libs=SLIBS, libdefs=("VF_TLS_EMUL",), unwind=200, family=FUNN[fun] + " (two threads)", timeout=600,
                                     desc="three calls of the same dimension issued by two threads (thread-local caches = one slot per thread), parameters differing "
                                          "in one component; the last call, on thread 0, returns the same uninterpreted terms as a freshly initialised table"))
    return obs


def obligations(ctx):
    obs = history_obs(ctx)
    obs += simple_all_obs(ctx)
    # results independent of the previous contents of outputs / scratch and of the buffer offset, integer entry points:
    # the C08 harness prefills every output with nondeterministic data and asserts the result as a function of the inputs only
    idx = 0
    for (op, var) in vg.PAIRS:
        for (rsz, asz, bsz) in ((2, 1, 3), (3, 3, 0), (1, 2, 2)):
            idx += 1
            obs.append(vg.vec_ob(op, var, 4, rsz, asz if op else 0, bsz if op in (3, 4) else 0, vg.STRIDES[idx % 3], avx=idx % 2, pmode=0, p=3, tag="prefill/"))
    # DFT-space entry points at byte offsets 8/16/24 (the exactly-sized buffers start inside a larger allocation); zero rows do not depend on prefill
    t = ag.tables(ctx)
    for offs in (0, 1, 3):
        for (api, nn, mt) in ((1, 8, 0), (2, 8, 0), (5, 8, 0), (9, 8, 0), (1, 4, 1)):
            obs.append(ag.api_ob(t, api, nn, mt, 1, 3, 1, nrows=2, ncols=2, offs=offs, tag="offset/"))
    # the inverse DFT writing over its own input (FFT64): output rows beyond the input size exactly zero whatever the buffer held before
    for (rsz, asz) in ((3, 1), (2, 2), (1, 3), (2, 0)):
        for (nn, avx) in ((4, 0), (8, 1)):
            obs.append(ag.api_ob(t, 2, nn, 0, avx, rsz, asz, inplace=True, tag="idft-inplace/"))
    # the complex-vector kernels that overwrite (mul, convolution) or accumulate into (addmul) their output: the output is arbitrary data before the call and every
    # result term must be a term of the operands only (shared analysis with C17; the windowed convolution includes the all-zero coefficients past the product's end)
    from vf.props import c17
    obs += [o for o in c17.kernel_obs(ctx) if o.name.startswith("conv/") or (o.name.startswith("fftvec/") and "_mul_" in o.name and "/m=4" in o.name)]
    # values, not only extents: the product pipelines with their scratch buffers 8 / 24 / 56 bytes past a 64-byte boundary return the same exact polynomial
    # (same analysis as C01 / C02), N = 16 so that several reim4 blocks are processed
    from vf.props import c01
    # empty input (a_size = 0, no row to multiply): the output must be the zero polynomial whatever the scratch holds (no output term may mention scratch contents)
    for (path, nn, avx, ncols) in ((3, 8, 1, 2), (3, 16, 1, 3), (2, 8, 0, 3), (2, 16, 1, 2)):
        obs.append(c01.prod_ob(t, path, nn, avx, 2, 0, nrows=2, ncols=ncols, tag="scratch-contents/"))
    for (path, toffs, avx) in ((2, 1, 1), (2, 3, 0), (2, 7, 1), (3, 1, 0), (3, 7, 1), (0, 1, 1), (1, 3, 1)):
        if path >= 2:
            obs.append(c01.prod_ob(t, path, 16, avx, 2, 2, nrows=2, ncols=2, tag="scratch-alignment/", toffs=toffs))
        else:
            obs.append(c01.prod_ob(t, path, 16, avx, 1, 1, tag="scratch-alignment/", toffs=toffs))
    return obs


def check(ctx, only=None, list_only=False):
    obs = obligations(ctx)
    if only:
        obs = [o for o in obs if only.search(o.name)]
    if list_only:
        for o in obs:
            print(o.name)
        return 0
    core.log("C15: %d obligations" % len(obs))
    res = core.run_all(ctx, obs)
    meta = {
        "functions_encoded": sorted(FUNN.values()) + ["init_* / new_*_precomp of the same tables", "vec_znx_* / big entry points (prefill independence)",
                                                      "vec_znx_dft/idft, svp_apply_dft, vmp_apply_dft_to_dft at buffer offsets 0/8/24"],
        "bounds": "product pipelines at N=16 with their scratch buffers 8/24/56 bytes past a 64-byte boundary (same exact polynomial as aligned); three- and four-call histories over two dimensions (4/8/16) and two parameter sets (divisor 2^0..2^5, bounds 50/63, overhead 18), both cpu flags; "
                  "cache-keying mistakes involving two parameter sets are exactly what these histories can show",
        "outside": "histories longer than four calls and random programs of hundreds of calls; reim_fft_simple / reim_ifft_simple / cplx_(i)fft_simple (their builders "
                   "cast pointers through integers and call libm, which the symbolic front end cannot execute); result independence of prior output contents for the "
                   "floating-point entry points is decided in C01/C02 (no output term mentions a prefill symbol)",
        "assumptions": ["equal uninterpreted terms => equal bits under every interpretation of the operations (sound, incomplete)", "malloc never fails"],
    }
    return core.finish(ctx, res, meta)
