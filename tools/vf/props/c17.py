"""C17: block layouts and complex-vector kernels are faithful and mutually inverse."""
from vf import core
from vf.core import Ob, AlgOb

LIBS = ["reim4/reim4_arithmetic_ref.c", "reim4/reim4_arithmetic_avx2.c", "reim4/reim4_fftvec_conv_ref.c", "reim4/reim4_fftvec_conv_fma.c",
        "reim4/reim4_fftvec_addmul_ref.c", "reim4/reim4_fftvec_addmul_fma.c", "reim4/reim4_execute.c", "commons.c", "commons_private.c"]
H = "layout.c"


def layout_obs(ctx):
    obs = []
    ms = (4, 8, 16, 32) if ctx.quick else (4, 8, 16, 32, 64)
    for m in ms:
        blks = range(m // 4) if (m <= 16 or not ctx.quick) else (0, m // 4 - 1)
        for blk in blks:
            for v in ("ref", "avx"):
                obs.append(Ob("extract/from_reim_%s/m=%d/blk=%d" % (v, m, blk), H, "h_extract", {"FN": "reim4_extract_1blk_from_reim_" + v, "KINDX": 0, "M": m, "BLK": blk},
                              LIBS, unwind=140, family="reim4_extract_1blk_from_reim_" + v, desc="all contents symbolic: dst = (re 4b..4b+3, im 4b..4b+3), source untouched"))
                obs.append(Ob("save/%s/m=%d/blk=%d" % (v, m, blk), H, "h_save", {"FN": "reim4_save_1blk_to_reim_" + v, "SAVE": None, "M": m, "BLK": blk}, LIBS, unwind=140,
                              family="reim4_save_1blk_to_reim_" + v, desc="only the 8 coefficients of block b change"))
                for nrows in (0, 1, 2, 3):
                    if ctx.quick and m > 8 and nrows in (1, 2):
                        continue
                    obs.append(Ob("extract/contiguous_%s/m=%d/blk=%d/rows=%d" % (v, m, blk, nrows), H, "h_extract",
                                  {"FN": "reim4_extract_1blk_from_contiguous_reim_" + v, "KINDX": 1, "M": m, "BLK": blk, "NROWS": nrows}, LIBS, unwind=max(260, 8 * m + 40),
                                  family="reim4_extract_1blk_from_contiguous_reim_" + v))
                    obs.append(Ob("extract/contiguous_sl_%s/m=%d/blk=%d/rows=%d" % (v, m, blk, nrows), H, "h_extract",
                                  {"FN": "reim4_extract_1blk_from_contiguous_reim_sl_" + v, "KINDX": 2, "M": m, "BLK": blk, "NROWS": nrows, "SL": 2 * m + 4}, LIBS,
                                  unwind=max(260, 12 * m + 40), family="reim4_extract_1blk_from_contiguous_reim_sl_" + v))
    for m in ms:
        for avx in (0, 1):
            obs.append(Ob("cplx-roundtrip/init/m=%d/avx=%d" % (m, avx), H, "h_cplx", {"M": m, "AVX": avx}, LIBS, unwind=140, family="reim4_from_cplx / reim4_to_cplx via init",
                          desc="tables from the real init_reim4_{from,to}_cplx_precomp(m): to_cplx(from_cplx(x)) == x on all m complex numbers"))
        for (f, t) in (("reim4_from_cplx_ref", "reim4_to_cplx_ref"), ("reim4_from_cplx_fma", "reim4_to_cplx_fma"), ("reim4_from_cplx_ref", "reim4_to_cplx_fma")):
            obs.append(Ob("cplx-roundtrip/direct/%s+%s/m=%d" % (f, t, m), H, "h_cplx", {"M": m, "FROMFN": f, "TOFN": t}, LIBS, unwind=140, family="reim4_from/to_cplx kernels"))
    return obs


CLIBS = LIBS + ["reim/reim_fftvec_addmul_ref.c", "reim/reim_fftvec_addmul_fma.c", "reim/reim_execute.c", "cplx/cplx_fftvec_ref.c", "cplx/cplx_fftvec_avx2_fma.c",
                "cplx/cplx_execute.c", "cplx/cplx_common.c"]
KNAME = {0: "mat1col", 1: "mat2cols", 2: "reim_mul", 3: "reim_addmul", 4: "reim4_mul", 5: "reim4_addmul", 6: "cplx_mul", 7: "cplx_addmul", 8: "conv1", 9: "conv2", 10: "conv"}


def cvec_ob(kern, fn, defs, params, name, alias=0, timeout=None):
    d = {"KERN": kern, "FN": fn, "ALIAS": alias}
    d.update(defs)
    p = {"kern": kern, "alias": alias}
    p.update(params)
    return AlgOb(name, "cvec.c", "h_cvec", "vf.alg.cvec:check_cvec", params=p, defs=d, libs=CLIBS, unwind=300, family=fn + (" aliased" if alias else ""), timeout=timeout,
                 desc="all operands (and the previous contents of the destination) symbolic reals: every output's exact-semantics polynomial equals the "
                      "complex-arithmetic definition term by term; operands untouched; memory safety by the bit-precise run")


def kernel_obs(ctx, aliases=(0,)):
    obs = []
    q = ctx.quick
    for fn in ("reim4_vec_mat1col_product_ref", "reim4_vec_mat1col_product_avx2"):
        for nrows in (0, 1, 2, 3) if q else (0, 1, 2, 3, 5):
            obs.append(cvec_ob(0, fn, {"NROWS": nrows}, {"nrows": nrows}, "dot/%s/rows=%d" % (fn, nrows)))
    for fn in ("reim4_vec_mat2cols_product_ref", "reim4_vec_mat2cols_product_avx2"):
        for nrows in (0, 1, 2, 3) if q else (0, 1, 2, 3, 5):
            obs.append(cvec_ob(1, fn, {"NROWS": nrows}, {"nrows": nrows}, "dot/%s/rows=%d" % (fn, nrows)))
    fv = [(2, "reim_fftvec_mul_ref", (1, 2, 4, 8)), (2, "reim_fftvec_mul_fma", (4, 8, 16)), (3, "reim_fftvec_addmul_ref", (1, 2, 4, 8)), (3, "reim_fftvec_addmul_fma", (4, 8, 16)),
          (4, "reim4_fftvec_mul_ref", (4, 8)), (4, "reim4_fftvec_mul_fma", (4, 8, 16)), (5, "reim4_fftvec_addmul_ref", (4, 8)), (5, "reim4_fftvec_addmul_fma", (4, 8, 16)),
          (6, "cplx_fftvec_mul_ref", (1, 2, 4, 8)), (6, "cplx_fftvec_mul_fma", (8, 16)), (7, "cplx_fftvec_addmul_ref", (1, 2, 4, 8)), (7, "cplx_fftvec_addmul_fma", (8, 16))]
    for (kern, fn, ms) in fv:
        for m in ms:
            for alias in aliases:
                obs.append(cvec_ob(kern, fn, {"M": m}, {"m": m}, "fftvec/%s/m=%d%s" % (fn, m, "/alias=%d" % alias if alias else ""), alias=alias))
    if 0 in aliases:
        smax = 3
        for sa in range(smax + 1):
            for sb in range(smax + 1):
                for k in range(sa + sb + 2):
                    obs.append(cvec_ob(8, "reim4_convolution_1coeff_ref", {"KIDX": k, "SIZEA": sa, "SIZEB": sb}, {"kidx": k, "sizea": sa, "sizeb": sb},
                                       "conv/1coeff/a=%d/b=%d/k=%d" % (sa, sb, k)))
                for k in (0, 1, sa + sb - 1 if sa + sb else 0, sa + sb):
                    obs.append(cvec_ob(9, "reim4_convolution_2coeff_ref", {"KIDX": k, "SIZEA": sa, "SIZEB": sb}, {"kidx": k, "sizea": sa, "sizeb": sb},
                                       "conv/2coeff/a=%d/b=%d/k=%d" % (sa, sb, k)))
                for (ds, do) in ((0, 0), (1, 0), (3, 0), (2, 1), (3, 2), (2, sa + sb)):
                    if q and (sa + sb) % 2 and ds == 2:
                        continue
                    obs.append(cvec_ob(10, "reim4_convolution_ref", {"DSIZE": ds, "DOFF": do, "SIZEA": sa, "SIZEB": sb}, {"dsize": ds, "doff": do, "sizea": sa, "sizeb": sb},
                                       "conv/window/a=%d/b=%d/size=%d/off=%d" % (sa, sb, ds, do)))
    seen = set()
    out = []
    for o in obs:
        if o.name not in seen:
            seen.add(o.name)
            out.append(o)
    return out


def obligations(ctx):
    # pointwise kernels also with the output being one of the operands (the library itself multiplies in place: svp_apply_dft, znx_small_single_product)
    return layout_obs(ctx) + kernel_obs(ctx, aliases=(0, 1, 2))


def check(ctx, only=None, list_only=False):
    obs = obligations(ctx)
    if only:
        obs = [o for o in obs if only.search(o.name)]
    if list_only:
        for o in obs:
            print(o.name)
        return 0
    core.log("C17: %d obligations" % len(obs))
    res = core.run_all(ctx, obs)
    meta = {
        "functions_encoded": ["reim4_extract_1blk_from_reim_{ref,avx}", "reim4_extract_1blk_from_contiguous_reim_{ref,avx}", "reim4_extract_1blk_from_contiguous_reim_sl_{ref,avx}",
                              "reim4_save_1blk_to_reim_{ref,avx}", "reim4_from_cplx_{ref,fma}", "reim4_to_cplx_{ref,fma}", "init_reim4_{from,to}_cplx_precomp",
                              "reim4_vec_mat1col_product_{ref,avx2}", "reim4_vec_mat2cols_product_{ref,avx2}", "reim_fftvec_{mul,addmul}_{ref,fma}",
                              "reim4_fftvec_{mul,addmul}_{ref,fma}", "cplx_fftvec_{mul,addmul}_{ref,fma}", "reim4_convolution_{1coeff,2coeff,}_ref"],
        "bounds": "m in {4,8,16,32} (64 thorough), every block index for m<=16 (first and last beyond, all thorough), rows 0..3, stride 2m+4; all contents symbolic; "
                  "dot products rows 0..3 (5 thorough); pointwise kernels m in {1..16}; convolution all (sizea,sizeb) <= 3 with every coefficient index / windows",
        "outside": "m > 32 (64); strides other than 2m and 2m+4",
        "assumptions": ["malloc never fails", "buffers exactly sized"],
    }
    return core.finish(ctx, res, meta)
