"""C13: supported in-place calls give the same result as out-of-place calls.

Every aliased instance is checked against the same limb-wise specification that C08 pins for the
out-of-place call on the same symbolic inputs, so "in place == out of place" holds for all data
in the box.  Floating-point pointwise products and the inverse DFT over its own input are added
by the FFT/NTT harness families (see extra obligations below)."""
from vf import core
from vf.core import Ob
from vf.props import vecops_gen as g
from vf.props import c05
from vf.props import apigen as ag


def obligations(ctx):
    obs = []
    smax = 3 if ctx.quick else 4
    nns = (2, 4) if ctx.quick else (2, 4, 8)
    idx = 0
    # add / sub: res==a, res==b, res==a==b (small vectors, both dispatch flags: the AVX kernels load before they store)
    for op in (3, 4):
        for (rsz, asz, bsz) in g.sizes_for(op, smax):
            for alias in (1, 2, 3):
                for nn in nns:
                    for avx in (0, 1):
                        idx += 1
                        if ctx.quick and (idx % 2):
                            continue
                        obs.append(g.vec_ob(op, 0, nn, rsz, asz, bsz, g.STRIDES[idx % 3], avx, alias=alias))
    # copy / negate with res==a
    for op in (1, 2):
        for (rsz, asz, _) in g.sizes_for(op, smax):
            for nn in nns:
                for avx in (0, 1):
                    idx += 1
                    obs.append(g.vec_ob(op, 0, nn, rsz, asz, 0, g.STRIDES[idx % 3], avx, alias=1))
    # big variants
    for (op, var, aliases) in ((3, 1, (1, 2, 3)), (4, 1, (1, 2, 3)), (3, 2, (1,)), (4, 2, (1,)), (4, 3, (2,))):
        for (rsz, asz, bsz) in g.sizes_for(op, smax):
            for alias in aliases:
                idx += 1
                if ctx.quick and (idx % 2):
                    continue
                obs.append(g.vec_ob(op, var, 2, rsz, asz, bsz, (0, 0, 0), idx % 2, alias=alias))
    # rotate / automorphism in place through the wrappers (per-limb pointer-equality test), p symbolic at N<=4,
    # every residue at N=8 (concrete representative), small and big forms
    for (op, var) in ((5, 0), (6, 0), (5, 1), (6, 1)):
        for (rsz, asz) in ((0, 0), (1, 1), (2, 2), (1, 2), (2, 1), (3, 1), (1, 3), (0, 2), (2, 0)):
            for nn in (2, 4):
                so = (1, 1, 0) if var == 0 else (0, 0, 0)
                obs.append(g.vec_ob(op, var, nn, rsz, asz, 0, so, avx=(rsz + asz) % 2, alias=1, pmode=1,
                                    timeout=600 if ctx.quick else 3000))
        nn = 8
        for r in range(2 * nn):
            if op == 6 and r % 2 == 0:
                continue
            p = [r, r - 2 * nn, r + 2 * nn * (1 << 40)][r % 3]
            obs.append(g.vec_ob(op, var, nn, 2, 2, 0, (0, 0, 0), avx=r % 2, alias=1, pmode=0, p=p))
    # normalization, big normalization with res==a
    ks = [1, 19, 62] if ctx.quick else [1, 2, 19, 33, 61, 62]
    for k in ks:
        for rsz in range(smax + 1):
            for asz in range(smax + 1):
                obs.append(Ob("normalize-inplace/k=%d/res=%d/a=%d" % (k, rsz, asz), c05.H, "h_vec",
                              {"K": k, "NN": 2, "RSZ": rsz, "ASZ": asz, "ASL": 3, "VIA": 0, "INPLACE": None}, c05.LIBS,
                              unwind=40, family="vec_znx_normalize_base2k res==a"))
                obs.append(Ob("big-normalize-inplace/k=%d/res=%d/a=%d" % (k, rsz, asz), c05.H, "h_vec",
                              {"K": k, "NN": 2, "RSZ": rsz, "ASZ": asz, "VIA": 1, "INPLACE": None}, c05.LIBS,
                              unwind=40, family="vec_znx_big_normalize_base2k res==a"))
    # the inverse DFT writing over its own input (FFT64): output rows beyond the input size exactly zero whatever the buffer held before
    for (rsz, asz) in ((3, 1), (2, 2), (1, 3), (2, 0)):
        for (nn, avx) in ((4, 0), (8, 1)):
            obs.append(ag.api_ob(ag.tables(ctx), 2, nn, 0, avx, rsz, asz, inplace=True, tag="idft-inplace/"))
    # same pointer, different strides, a single input limb (only limb 0 is shared; the other output limbs are zero extension at another stride):
    # every single-vector operation in place on limb 0
    for (op, var) in ((1, 0), (2, 0), (5, 0), (6, 0)):
        for (rsz, so) in ((3, (3, 0, 0)), (1, (0, 2, 0)), (2, (2, 0, 0))):
            for nn in (2, 4):
                if op in (5, 6):
                    obs.append(g.vec_ob(op, var, nn, rsz, 1, 0, so, avx=(rsz + nn) % 2, alias=4, pmode=1, tag="limb0-shared/", timeout=600))
                else:
                    obs.append(g.vec_ob(op, var, nn, rsz, 1, 0, so, avx=(rsz + nn) % 2, alias=4, tag="limb0-shared/"))
    # ... and its VALUES: the scalar-product pipeline with the inverse DFT run in place yields the same exact polynomial as with a separate output (C01 analysis)
    from vf.props import c01
    for (nn, avx, rsz, asz) in ((4, 0, 2, 1), (8, 1, 2, 2), (16, 1, 1, 1), (8, 0, 3, 2)):
        obs.append(c01.prod_ob(ag.tables(ctx), 1, nn, avx, rsz, asz, idft_inplace=True, tag="idft-inplace-values/"))
    # pointwise products with r==a or r==b (reim, reim4 and interleaved-complex vectors, reference and FMA kernels): the aliased call yields the
    # same exact-semantics polynomial as the definition (shared analysis with C17)
    from vf.props import c17
    obs += [o for o in c17.kernel_obs(ctx, aliases=(1, 2)) if "/alias=" in o.name]
    return obs


def check(ctx, only=None, list_only=False):
    obs = obligations(ctx)
    if only:
        obs = [o for o in obs if only.search(o.name)]
    if list_only:
        for o in obs:
            print(o.name)
        return 0
    core.log("C13: %d obligations" % len(obs))
    res = core.run_all(ctx, obs)
    meta = {
        "functions_encoded": ["vec_znx_{add,sub,copy,negate,rotate,automorphism} and _avx forms with aliased output",
                              "vec_znx_big_{add,sub,add_small,sub_small_a,sub_small_b,rotate,automorphism} aliased",
                              "vec_znx_normalize_base2k / vec_znx_big_normalize_base2k with res==a",
                              "znx_rotate_inplace_i64, znx_automorphism_inplace_i64 (selected by pointer equality)"],
        "bounds": "pointwise products reim / reim4 / cplx mul and addmul (ref and FMA, m up to 16) with r==a and r==b as exact polynomials; aliasing patterns res==a, res==b, res==a==b (same pointer, same stride); limb counts 0..3 (0..4 thorough) in all orderings "
                  "including res_size different from the aliased size; N in {2,4} (8 thorough; 8 for rotations by residue); both dispatch flags; "
                  "rotation/automorphism p symbolic for N<=4, all residues at N=8; k in {1,19,62} for normalization",
        "outside": "partial overlaps (not supported by the API); floating-point pointwise products r==a / r==b and inverse DFT over its own "
                   "input are decided by the FFT/NTT harness families when present in this check's obligation list; N > 8",
        "assumptions": ["malloc never fails", "the aliased buffer is as large as the larger of the two extents"],
    }
    return core.finish(ctx, res, meta)
