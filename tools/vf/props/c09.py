"""C09: rotation, automorphism and (X^p-1) product are the ring maps for every p."""
from vf import core
from vf.props import vecops_gen as g

I64MIN = -(1 << 63)


def reps(r, nn):
    """representatives of the residue class r mod 2N: inside [0,2N), negative, far positive, near INT64_MIN"""
    two_n = 2 * nn
    far = r + two_n * (1 << 40)
    neg = r - two_n
    lowest = I64MIN + ((r - I64MIN) % two_n)  # smallest int64 congruent to r
    if lowest == I64MIN:
        lowest += two_n  # the property quantifies over (-2^63, 2^63)
    return [r, neg, far, lowest]


def obligations(ctx):
    obs = []
    # (a) p fully symbolic over all of int64 (odd for automorphisms), data symbolic
    sym_n = (2, 4, 8) if ctx.quick else (2, 4, 8)
    for nn in sym_n:
        for kop in (0, 1, 2):
            for dbl in (0, 1):
                obs.append(g.kernel_ob(kop, dbl, nn, pmode=1, timeout=600 if ctx.quick else 3000))
    # (b) every residue class with symbolic multiple of 2N (thorough: N=16)
    if not ctx.quick:
        nn = 16
        for kop in (0, 1, 2):
            for dbl in (0, 1):
                for r in range(2 * nn):
                    if kop == 2 and r % 2 == 0:
                        continue
                    obs.append(g.kernel_ob(kop, dbl, nn, pmode=2, pr=r, timeout=3000))
    # (c) every residue, concrete representatives (control flow folds, data stays symbolic)
    # N = 256: 65 of the first 600 obligations ran into the 900 s limit on a shared machine (round 6) - the thorough tier stops at 128
    conc_n = (16, 32) if ctx.quick else (16, 32, 64, 128)
    for nn in (2, 4, 8) + conc_n:
        for kop in (0, 1, 2):
            for dbl in (0, 1):
                if nn <= 8:
                    continue  # already decided for all p in (a)
                for r in range(2 * nn):
                    if kop == 2 and r % 2 == 0:
                        continue
                    rs = reps(r, nn)
                    # one representative per residue per query, rotating; all four in the thorough tier for N<=32
                    sel = rs if (not ctx.quick and nn <= 32) else [rs[(r // (2 if kop == 2 else 1) + kop + dbl) % 4]]
                    for p in sel:
                        obs.append(g.kernel_ob(kop, dbl, nn, pmode=0, p=p, unwind=2 * nn + 8))
    # (d) vector and big-coefficient wrappers (per-limb in-place selection by pointer equality), p symbolic
    for nn in (2, 4):
        for (op, var) in ((5, 0), (6, 0), (5, 1), (6, 1)):
            for (rsz, asz) in ((2, 2), (1, 2), (2, 1), (3, 1)):
                for alias in (0, 1):
                    so = (1, 1, 0) if var == 0 else (0, 0, 0)
                    obs.append(g.vec_ob(op, var, nn, rsz, asz, 0, so, avx=(rsz + alias) % 2, alias=alias, pmode=1,
                                        timeout=600 if ctx.quick else 3000))
    return obs


def check(ctx, only=None, list_only=False):
    obs = obligations(ctx)
    if only:
        obs = [o for o in obs if only.search(o.name)]
    if list_only:
        for o in obs:
            print(o.name)
        return 0
    core.log("C09: %d obligations" % len(obs))
    res = core.run_all(ctx, obs)
    meta = {
        "functions_encoded": ["znx_rotate_i64", "znx_rotate_inplace_i64", "rnx_rotate_f64", "rnx_rotate_inplace_f64",
                              "znx_mul_xp_minus_one", "rnx_mul_xp_minus_one", "rnx_mul_xp_minus_one_inplace",
                              "znx_automorphism_i64", "znx_automorphism_inplace_i64", "rnx_automorphism_f64", "rnx_automorphism_inplace_f64",
                              "vec_znx_rotate(_ref)", "vec_znx_automorphism(_ref)", "vec_znx_big_rotate", "vec_znx_big_automorphism"],
        "bounds": "N in {2,4,8}: p fully symbolic over int64 (odd for automorphisms) in one query each; N in {16,32} (thorough: also 64,128): "
                  "every residue mod 2N with one concrete representative per residue rotating over {r, r-2N, r+2N*2^40, smallest int64 in the class} "
                  "(thorough: all four for N<=32, and N=16 with symbolic multiple of 2N); data symbolic everywhere; wrappers at N in {2,4} "
                  "with symbolic p, in place and out of place",
        "outside": "for N>=16 'all p' is all residues x chosen representatives, not all of int64; N>32 (128 thorough); "
                   "composition laws are consequences of the signed-permutation specification and not separately checked; "
                   "rnx_mul_xp_minus_one(_inplace) on doubles is decided on the injective probe vector in[j]=2^j, not on all data: "
                   "an IEEE subtraction behind index selection is not decided by any SAT back end here (minisat, cadical, kissat: no answer in 100-600 s "
                   "even for concrete p); the kernel has no data-dependent control flow, so the probe determines the index/sign map",
        "assumptions": ["malloc never fails", "automorphism only for odd p (documented)"],
    }
    return core.finish(ctx, res, meta)
