"""C07: accelerated kernels compute the same function as their reference kernels.

Pairs are decided in the way that fits each kind (DESIGN.md 4/C07): integer / data-movement kernels bit for bit on the same
symbolic data; floating-point kernels by both variants having the SAME exact-semantics polynomial (products: exactly the
complex-arithmetic definition; transforms: the documented DFT within the radius) - the obligations are the ref and the
accelerated instance of the same family; conversions by both variants meeting the same bit-precise contract; q120 products by
both being congruent to the same sum; the public API by running every entry point under both CPU flags."""
from vf import core
from vf.core import Ob, AlgOb
from vf.props import c06, c08, c10, c14, c17, c02, c01, apigen as ag

PLIBS = ["coeffs/coeffs_arithmetic.c", "coeffs/coeffs_arithmetic_avx.c", "commons.c", "commons_private.c"]


def obligations(ctx):
    obs = []
    for pair, nm in ((0, "add"), (1, "sub"), (2, "negate")):
        for nn in (1, 2, 4, 8, 16):
            for offs in (0, 1, 3):
                obs.append(Ob("znx_%s/ref-vs-avx/nn=%d/offs=%d" % (nm, nn, 8 * offs), "pairs.c", "h_pair", {"PAIR": pair, "NN": nn, "OFFS": offs}, PLIBS, unwind=60,
                              family="znx_%s_i64 ref vs avx" % nm, desc="same symbolic operands, unaligned buffers: bitwise equal results"))
    for nn in (1, 2, 4, 8, 16):
        for mlog in (0, 3, 16):
            obs.append(AlgOb("rnx_divide_by_m/ref-vs-avx/nn=%d/m=2^%d" % (nn, mlog), "pairs.c", "h_rnx_div", "vf.alg.uf:check_equal",
                             params={"out_a": "VF_OUT", "out_b": "VF_OUT2", "n": nn, "nin": nn}, defs={"NN": nn, "MLOG": mlog}, libs=PLIBS, unwind=60,
                             family="rnx_divide_by_m ref vs avx", desc="both variants produce the same uninterpreted term per element (one multiplication by 1/m)"))
    # families whose obligations come in a reference and an accelerated instance
    obs += [o for o in c17.layout_obs(ctx) if ("/m=8/" in o.name or "/m=16/" in o.name) and ("rows=2" in o.name or "rows=3" in o.name or "save/" in o.name or "from_reim" in o.name or "cplx-roundtrip" in o.name)]
    obs += [o for o in c17.kernel_obs(ctx) if o.name.startswith("dot/") or o.name.startswith("fftvec/")]
    tq = core.tables_dir(ctx, (1, 2, 4, 8, 16, 32), ())
    obs += [o for o in c06.obligations(ctx) if any(("/m=%d/" % m) in o.name for m in (1, 2, 4, 8, 16, 32))]
    obs += c06.schedule_obs(ctx)  # AVX2 driver = reference driver, pass for pass, for every m up to 65536
    obs += c10.accel_obs(ctx, core.tables_dir(ctx, (), ()))  # q120 products ref / AVX2 congruent to the same sum for every ell <= 10000
    obs += [o for o in c14.obligations(ctx) if "/direct/" in o.name or ("/init/" in o.name and "to_tnx" not in o.name) or "to_tnx/avx/L=29/d=2^9/e=2" in o.name
            or "to_tnx/ref/L=29/d=2^9/e=2" in o.name]
    obs += c10.product_obs(ctx, core.tables_dir(ctx, (), ()), [2, 3])
    # public API under both dispatch settings
    obs += [o for o in c08.obligations(ctx) if ("/N=4/" in o.name and ("r2.a1.b3" in o.name or "r3.a3.b0" in o.name or "r1.a2.b2" in o.name or "r2.a2.b0" in o.name))]
    t = ag.tables(ctx)
    for nn in (4, 8):
        for avx in (0, 1):
            obs.append(c01.prod_ob(t, 0, nn, avx, tag="api/"))
            obs.append(c01.prod_ob(t, 1, nn, avx, 2, 2, tag="api/"))
            obs.append(c01.prod_ob(t, 2, nn, avx, 3, 2, nrows=2, ncols=3, tag="api/"))
            obs.append(c01.prod_ob(t, 3, nn, avx, 2, 3, nrows=3, ncols=2, tag="api/"))
            obs.append(c01.prod_ob(t, 3, nn, avx, 3, 2, nrows=2, ncols=4, tag="api/"))  # odd last output column inside a column pair
            obs.append(c01.prod_ob(t, 2, nn, avx, 3, 3, asl=nn + 1, nrows=3, ncols=5, tag="api/"))
    seen, out = set(), []
    for o in obs:
        if o.name not in seen:
            seen.add(o.name)
            out.append(o)
    return out


def check(ctx, only=None, list_only=False):
    obs = obligations(ctx)
    if only:
        obs = [o for o in obs if only.search(o.name)]
    if list_only:
        for o in obs:
            print(o.name)
        return 0
    core.log("C07: %d obligations" % len(obs))
    res = core.run_all(ctx, obs)
    meta = {
        "functions_encoded": ["znx_{add,sub,negate}_i64_{ref,avx}", "rnx_divide_by_m_{ref,avx}", "reim4 extract/save/layout conversion ref/avx", "reim4 dot products ref/avx2",
                              "reim/reim4/cplx fftvec mul/addmul ref/fma", "reim/cplx fft/ifft ref vs AVX2 (+ .s leaves)", "conversion kernels ref/avx", "q120 products ref/avx2",
                              "public entry points under both cpu flags (real fill_virtual_table)"],
        "bounds": "kernel sizes 1..16 on both sides of every dispatch threshold; buffers at byte offsets 0/8/24; FFT m <= 32; q120 ell in {2,3}",
        "outside": "cplx_fft_avx512.c, cplx_fft_sse.c, NEON and aarch64 fallbacks (not built / not encoded); 'within a few units of rounding' for floating-point pairs is "
                   "established through equal exact-semantics polynomials plus reported radii, not as a single ulp bound",
        "assumptions": ["as in C06, C10, C14, C17 for the reused families"],
    }
    return core.finish(ctx, res, meta)
