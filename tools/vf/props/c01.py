"""C01: FFT64 negacyclic product is exact within the documented precision budget."""
from vf import core
from vf.core import AlgOb
from vf.props import apigen as ag

PN = {0: "znx_small_single_product", 1: "svp_prepare+svp_apply_dft+idft", 2: "vmp_prepare+vmp_apply_dft+idft_tmp_a", 3: "vmp_prepare+vec_znx_dft+vmp_apply_dft_to_dft+idft_tmp_a"}


def prod_ob(tdir, path, nn, avx, rsz=1, asz=1, asl=None, nrows=1, ncols=1, tmpa=False, timeout=None, tag="", toffs=0, palias=0, idft_inplace=False):
    d = {"PATH": path, "NN": nn, "MM": nn // 2, "AVX": avx, "RSZ": rsz, "ASZ": asz, "ASL": asl if asl is not None else nn, "NROWS": nrows, "NCOLS": ncols}
    if toffs:
        d["TOFFS"] = toffs
    if palias:
        d["PALIAS"] = palias
    if idft_inplace:
        d["IDFT_INPLACE"] = None
    if tmpa:
        d["TMPA"] = None
    name = "%s%s/N=%d/avx=%d" % (tag, PN[path], nn, avx)
    if path >= 1:
        name += "/res=%d/a=%d" % (rsz, asz)
    if path >= 2:
        name += "/rows=%d/cols=%d" % (nrows, ncols)
    if tmpa:
        name += "/tmp_a"
    if d["ASL"] != nn:
        name += "/asl=N+%d" % (d["ASL"] - nn)
    if toffs:
        name += "/scratch+%dB" % (8 * toffs)
    if palias:
        name += "/res==%s" % ("a" if palias == 1 else "b")
    if idft_inplace:
        name += "/idft-inplace"
    import struct
    na = (1 if path == 0 else asz) * nn
    nb = nn if path <= 1 else nrows * ncols * nn
    probe = [str(struct.unpack("<Q", struct.pack("<d", float(((7 * i + 3) % 23) - 11)))[0]) for i in range(na)] + \
            [str(struct.unpack("<Q", struct.pack("<d", float(((5 * i + 1) % 19) - 9)))[0]) for i in range(nb)]
    ob = _mk(name, path, nn, rsz, asz, nrows, ncols, d, tdir, avx, timeout)
    # structured probes: operands whose transform is exactly real, exactly imaginary or zero (monomials c*X^p at p = 0, 1, N/2, N-1 against a constant, and
    # the reverse), the shapes on which a data-dependent shortcut in DFT space (comparisons of doubles are outside the real-domain reading) would act
    def fb(x):
        return str(struct.unpack("<Q", struct.pack("<d", float(x)))[0])
    probes = [probe]
    for pos in sorted(set((0, 1 % nn, nn // 2, nn - 1))):
        va = [fb(3 + (i // nn)) if i % nn == pos else fb(0) for i in range(na)]
        vb = [fb(5 + (i // nn)) if i % nn == 0 else fb(0) for i in range(nb)]
        probes.append(va + vb)
        va = [fb(3 + (i // nn)) if i % nn == 0 else fb(0) for i in range(na)]
        vb = [fb(-7 - (i // nn)) if i % nn == pos else fb(0) for i in range(nb)]
        probes.append(va + vb)
    probes.append([fb(0)] * na + [fb(2)] * nb)
    ob.probe_inputs = probes
    return ob


def _mk(name, path, nn, rsz, asz, nrows, ncols, d, tdir, avx, timeout):
    return AlgOb(name, "prod.c", "h_prod", "vf.alg.prod:check_prod",
                 params={"path": path, "nn": nn, "rsz": rsz, "asz": asz, "nrows": nrows, "ncols": ncols}, defs=d, libs=ag.LIBS, unwind=700, inc=[tdir],
                 family=PN[path] + " avx=%d" % avx, timeout=timeout or 900, mem_gb=16,
                 desc="the real pipeline (conversions cut by the C14 contract stubs) with all operand coefficients symbolic: every pre-rounding output is m times the "
                      "bilinear negacyclic form, coefficient deviations and rounding radii bounded; no output term mentions anything but the operands")


def obligations(ctx):
    t = ag.tables(ctx)
    obs = []
    nns = (2, 4, 8, 16, 32) if ctx.quick else (2, 4, 8, 16, 32, 64)
    for nn in nns:
        for avx in (0, 1):
            obs.append(prod_ob(t, 0, nn, avx))
            obs.append(prod_ob(t, 1, nn, avx, 1, 1))
    # the contracts assumed by the stubs, on the kernels the module really carries (selected by the real fill_module_precomp)
    from vf.core import Ob
    for nn in ((2, 16) if ctx.quick else (2, 8, 16, 32)):
        for avx in (0, 1):
            for entry in ("h_module_from_znx64", "h_module_to_znx64"):
                obs.append(Ob("module-conversion/%s/N=%d/avx=%d" % (entry[9:], nn, avx), "conv.c", entry, {"MODULE_CONV": None, "NN": nn, "MM": nn // 2, "AVX": avx},
                              ag.LIBS, unwind=700, inc=[t], family="module conversion contracts", timeout=1500,
                              desc="every lane symbolic over the whole window the precision budget needs (|x|<2^50 resp. |x/m|<2^52): the kernel selected for this module meets "
                                   "the contract that the product analysis substitutes for it"))
    # limb counts / strides / both inverse variants of the scalar-vector path at small N (zero rows are bit-precise in C11/C18; here: values)
    for nn in (4, 8):
        for (rsz, asz) in ((2, 1), (1, 2), (2, 2), (3, 2)):
            for avx in (0, 1):
                obs.append(prod_ob(t, 1, nn, avx, rsz, asz, asl=nn + 1, tmpa=(rsz + asz + avx) % 2 == 0))
    # the small product written over one of its operands (the library converts both operands into scratch before anything is written)
    for nn in (4, 16):
        for avx in (0, 1):
            for pal in (1, 2):
                obs.append(prod_ob(t, 0, nn, avx, palias=pal))
    # "output rows beyond the input size are exactly zero" (bit-precise, outputs prefilled with arbitrary data), empty input included
    for nn in (4, 16):
        for avx in (0, 1):
            for api in (5, 1, 2, 3):  # svp_apply_dft, vec_znx_dft, vec_znx_idft, vec_znx_idft_tmp_a
                for (rsz, asz) in ((2, 0), (3, 1), (1, 0)):
                    obs.append(ag.api_ob(t, api, nn, 0, avx, rsz, asz, asl=nn + 1 if api in (1, 5) else nn, tag="zero-rows/"))
    return obs


def check(ctx, only=None, list_only=False):
    obs = obligations(ctx)
    if only:
        obs = [o for o in obs if only.search(o.name)]
    if list_only:
        for o in obs:
            print(o.name)
        return 0
    core.log("C01: %d obligations" % len(obs))
    res = core.run_all(ctx, obs)
    meta = {
        "functions_encoded": ["fft64_znx_small_single_product", "fft64_svp_prepare_ref", "fft64_svp_apply_dft_ref", "fft64_vec_znx_idft", "fft64_vec_znx_idft_tmp_a",
                              "reim_fft / reim_ifft (ref, AVX2, .s leaves)", "reim_fftvec_mul_{ref,fma}", "real fill_module_precomp / fill_virtual_table"],
        "bounds": "N in {2,4,8,16,32} (64 thorough), both cpu flags, all operand coefficients symbolic reals (integers below 2^50 in the claim); limb counts up to 3x2 at N in {4,8}",
        "outside": "N >= 64 (128); the property's own constant 8*log2(N) against the 2-norm products is NOT decided: what is certified is the 1-norm statement with the measured "
                   "kappa reported in evidence; the alarm rule (violation on scaled unit inputs, replayed natively against an exact big-integer product) is sound",
        "assumptions": ["C14 contracts for reim_from_znx64 (exact below 2^50) and reim_to_znx64 (within 1/2 of x/m) replace those two kernels in the algebraic run",
                        "IEEE-754 standard model, no overflow/underflow", "tables dumped from the real builders"],
    }
    return core.finish(ctx, res, meta)
