"""C12: shared modules and precomputed tables are safe for concurrent use.

CBMC does not explore thread schedules over pointer-rich code ("pointer handling for concurrency is unsound"), so the property is
decided through the sequential non-interference reduction of DESIGN.md 4/C12: if every call writes only objects it owns (outputs,
scratch, its stack, heap it allocates) and everything else it touches is never written by any call, then every interleaving of calls
on disjoint data is race-free and each call returns what it returns alone.  The premises are per-call facts over all inputs:
  (1) frame: MODULE, virtual table, precomputed objects and sources are bit-identical after every entry point (shared with C18/C11);
  (2) no hidden static state behind the module API: with every static-lifetime object of the program havocked (--nondet-static) every
      module-level entry point still verifies - a function that reaches a lazily initialised static table dereferences a havocked pointer;
  (3) *_simple warm-up protocol: after one completed call per dimension, a further call through the caching entry point returns the bits
      of a freshly built table (history obligations shared with C15) and does not re-initialise (checked by the same harness under
      --nondet-static after the warm-up is impossible to express; the SSA write-set route of the design is not built - see 'outside')."""
from vf import core
from vf.props import apigen as ag
from vf.props import c15


def obligations(ctx):
    t = ag.tables(ctx)
    obs = []
    # (1) frame on every DFT-space entry point (module immutable), both module types, both cpu flags
    for nn in (4, 8):
        for avx in (0, 1):
            for api in (1, 2, 3, 4, 5, 6, 7, 8, 9):
                obs.append(ag.api_ob(t, api, nn, 0, avx, 2, 2, nrows=2, ncols=2, tag="frame/"))
    for api in (1, 2, 3):
        obs.append(ag.api_ob(t, api, 4, 1, 1, 2, 2, tag="frame/"))
    # (2) the same entry points with all static-lifetime state nondeterministic
    for nn in (4, 8):
        for avx in (0, 1):
            for api in (1, 2, 3, 4, 5, 6, 7, 8, 9):
                obs.append(ag.api_ob(t, api, nn, 0, avx, 2, 2, nrows=2, ncols=2, flags=("--slice-formula", "--nondet-static"), tag="nostatic/"))
    for api in (1, 2, 3):
        obs.append(ag.api_ob(t, api, 4, 1, 1, 2, 2, flags=("--slice-formula", "--nondet-static"), tag="nostatic/"))
    # (2') the SSA write set of every entry point contains no shared static-lifetime object
    for avx in (0, 1):
        for api in (1, 2, 3, 4, 5, 6, 7, 8, 9):
            obs.append(ag.api_writeset_ob(t, api, 8, 0, avx, 2, 2, nrows=2, ncols=2))
    for api in (1, 2, 3):
        obs.append(ag.api_writeset_ob(t, api, 4, 1, 1, 2, 2))
    # the write set only sees the paths a shape executes: the vmp drivers are run over their branch structure as well (odd / even last column,
    # truncated and extended outputs, fewer rows than the matrix has, the N<8 column-major path)
    for api in (8, 9):
        for (nn, rsz, asz, nrows, ncols) in ((8, 1, 2, 2, 2), (8, 3, 1, 3, 4), (8, 5, 3, 2, 4), (8, 0, 2, 2, 3), (8, 2, 0, 2, 2), (4, 3, 2, 2, 4), (16, 3, 2, 2, 4)):
            for avx in (0, 1):
                obs.append(ag.api_writeset_ob(t, api, nn, 0, avx, rsz, asz, nrows=nrows, ncols=ncols))
    # the FFT drivers on both sides of their large-dimension switch (m > 2048: depth-first recursion), kernels stubbed
    from vf.props import c06
    obs += c06.schedule_writeset_obs(ctx)
    # (1') coefficient-space entry points take the module too: on exactly-sized output buffers every access of a call stays inside the limbs it was given
    # (a kernel that re-stores words next to its output - same values - is a data race with the owner of those words; here it is an out-of-bounds access)
    from vf.props import vecops_gen as vg
    for (op, var) in vg.PAIRS:
        if var != 0:
            continue
        for nn in (2, 4):
            for avx in (0, 1):
                if op in (5, 6):
                    obs.append(vg.vec_ob(op, var, nn, 1, 1, 0, (0, 0, 0), avx, pmode=0, p=3, tag="own-extent/"))
                else:
                    obs.append(vg.vec_ob(op, var, nn, 1, 1 if op else 0, 1 if op in (3, 4) else 0, (0, 0, 0), avx, tag="own-extent/"))
                    obs.append(vg.vec_ob(op, var, nn, 3, 2 if op else 0, 1 if op in (3, 4) else 0, (0, 0, 0), avx, tag="own-extent/"))
    # (1'') ... and assign no shared static-lifetime object (SSA write set, as for the DFT-space entry points): every operation at N=4, and the in-place
    # rotation / automorphism - the forms with an internal temporary - also at N=64 (concrete p), above the small-dimension box (seed C12-h)
    for (op, var) in vg.PAIRS:
        if var != 0:
            continue
        shapes = [(4, 0, 3)] + ([(4, 1, 3), (64, 1, 5)] if op in (5, 6) else [])
        for (nn, alias, pp) in shapes:
            for avx in (0, 1):
                if op in (5, 6):
                    o = vg.vec_ob(op, var, nn, 2, 2, 0, (0, 0, 0), avx, alias=alias, pmode=0, p=pp, tag="writeset-vec/")
                else:
                    o = vg.vec_ob(op, var, nn, 2, 2 if op else 0, 2 if op in (3, 4) else 0, (0, 0, 0), avx, tag="writeset-vec/")
                obs.append(core.AlgOb(o.name, vg.H, "h_vecop", "vf.alg.uf:check_shared_writes", params={"marker": "vf_marker", "statics_only": True, "nin": 600},
                                      defs=o.defs, libs=vg.LIBS, unwind=200, family=o.family + " (write set)", timeout=600, mem_gb=12,
                                      desc="after the module is built, the coefficient-space call assigns no static-lifetime object other than thread-local "
                                           "ones (CBMC's SSA assignments of the whole call, unsliced)"))
    # (3) warm-up protocol of the *_simple functions
    obs += [o for o in c15.history_obs(ctx) if "/avx=1" in o.name or "same-dim" in o.name]
    # (4) thread-local caches under call-granularity interleavings of two threads
    obs += c15.thread_history_obs(ctx)
    return obs


def check(ctx, only=None, list_only=False):
    obs = obligations(ctx)
    if only:
        obs = [o for o in obs if only.search(o.name)]
    if list_only:
        for o in obs:
            print(o.name)
        return 0
    core.log("C12: %d obligations" % len(obs))
    res = core.run_all(ctx, obs)
    meta = {
        "functions_encoded": ["all module-level entry points of the DFT-space API (fft64: dft, idft, idft_tmp_a, svp_prepare, svp_apply_dft, znx_small_single_product, "
                              "vmp_prepare_contiguous, vmp_apply_dft, vmp_apply_dft_to_dft; ntt120: dft, idft, idft_tmp_a)", "the *_simple caching entry points",
                              "reim_to_znx64_simple / cplx_to_tnx32_simple with their thread-local caches as one slot per emulated thread (-DVF_TLS_EMUL)"],
        "bounds": "N in {4,8}, sizes 2, both cpu flags; static state havocked by cbmc --nondet-static; SSA write set of every entry point at N=8 (fft64) / N=4 (ntt120) over the "
                  "whole unsliced VC; three/four-call histories for the caching functions with the write set taken after one warm-up call per dimension; two emulated threads, "
                  "three calls, parameter sets differing in one component (bound or divisor), m=8",
        "outside": "instruction-level thread schedules (this is a sequential non-interference reduction plus call-granularity interleavings of two threads); weak-memory behaviour; "
                   "torn reads during the documented-as-unsafe first use of a *_simple function; more than two threads / more than three calls per history; a write to shared "
                   "storage on a path that symbolic execution of the bounded shapes does not take",
        "assumptions": ["non-interference theorem: per-call frame + absence of writes to shared static storage imply race freedom and isolation for calls on disjoint data",
                        "--nondet-static havocs every non-const static-lifetime object, including function-local statics and __thread objects",
                        "CBMC's SSA naming distinguishes automatic (x!0@1), thread-local static (f::1::x!0) and shared static / heap objects (no suffix); the exported VC lists "
                        "assignments in program order (the marker assignment separates construction / warm-up from the calls under test)",
                        "a write-set hit is reported as a violation only after ThreadSanitizer reports a data race for two real threads running the same calls natively"],
    }
    return core.finish(ctx, res, meta)
