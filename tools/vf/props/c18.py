"""C18: read-only operands are never modified."""
from vf import core
from vf.core import Ob
from vf.props import apigen as ag
from vf.props import vecops_gen as vg
from vf.props import c10, c17


def obligations(ctx):
    t = ag.tables(ctx)
    obs = []
    q = ctx.quick
    # DFT-space entry points: sources (incl. stride padding), prepared scalars/matrices, module and tables snapshotted and compared
    for nn in ((4, 8) if q else (2, 4, 8, 16)):
        for avx in (0, 1):
            for api in (1, 2, 5):
                for (rsz, asz) in ((0, 2), (2, 0), (1, 3), (3, 1), (2, 2)):
                    obs.append(ag.api_ob(t, api, nn, 0, avx, rsz, asz, asl=nn + 2 if api in (1, 5) else nn))
            obs.append(ag.api_ob(t, 4, nn, 0, avx))
            obs.append(ag.api_ob(t, 6, nn, 0, avx))
            for (nrows, ncols, rsz, asz) in ((1, 1, 1, 1), (2, 3, 3, 1), (3, 2, 1, 3), (2, 2, 0, 2), (2, 1, 2, 0), (3, 4, 3, 3), (1, 5, 5, 2)):
                obs.append(ag.api_ob(t, 7, nn, 0, avx, nrows=nrows, ncols=ncols))
                obs.append(ag.api_ob(t, 8, nn, 0, avx, rsz, asz, asl=nn + 1, nrows=nrows, ncols=ncols))
                obs.append(ag.api_ob(t, 9, nn, 0, avx, rsz, asz, nrows=nrows, ncols=ncols))
    for nn in (4, 8):
        for api in (1, 2):
            for (rsz, asz) in ((0, 2), (1, 3), (3, 1), (2, 2)):
                obs.append(ag.api_ob(t, api, nn, 1, 1, rsz, asz, asl=nn + 1 if api == 1 else nn))
    # the same entry points with every buffer carved back to back out of one arena (in order of use / in reverse order): a source that merely touches
    # the output range must stay untouched, and an overrun of the output lands in the neighbouring source
    for arena in (1, 2):
        for avx in (0, 1):
            for (api, rsz, asz) in ((1, 2, 3), (1, 3, 2), (2, 2, 3), (2, 3, 2), (2, 2, 2), (5, 2, 3), (5, 3, 1)):
                obs.append(ag.api_ob(t, api, 8, 0, avx, rsz, asz, arena=arena))
            obs.append(ag.api_ob(t, 4, 8, 0, avx, arena=arena))
            obs.append(ag.api_ob(t, 6, 8, 0, avx, arena=arena))
            for (nrows, ncols, rsz, asz) in ((2, 3, 3, 1), (3, 2, 1, 3)):
                obs.append(ag.api_ob(t, 7, 8, 0, avx, nrows=nrows, ncols=ncols, arena=arena))
                obs.append(ag.api_ob(t, 8, 8, 0, avx, rsz, asz, nrows=nrows, ncols=ncols, arena=arena))
                obs.append(ag.api_ob(t, 9, 8, 0, avx, rsz, asz, nrows=nrows, ncols=ncols, arena=arena))
        for (api, rsz, asz) in ((1, 2, 2), (2, 2, 3), (2, 3, 2)):
            obs.append(ag.api_ob(t, api, 4, 1, 1, rsz, asz, arena=arena))
    # coefficient-space entry points: both sources compared word by word including stride padding, with and without aliasing of the OTHER operand
    idx = 0
    for (op, var) in vg.PAIRS:
        if op == 0:
            continue
        for (rsz, asz, bsz) in ((0, 2, 1), (3, 1, 2), (2, 3, 3)):
            for alias in ((0, 1, 2) if op in (3, 4) and var in (0, 1) else (0,)):
                idx += 1
                obs.append(vg.vec_ob(op, var, 4, rsz, asz, bsz if op in (3, 4) else 0, vg.STRIDES[idx % 3] if not alias else (0, 0, 0), avx=idx % 2, alias=alias,
                                     pmode=0, p=-5 if op == 5 else 7))
    # in-place calls on a prefix (res == a, res_size < a_size): the source limbs that are not part of the output are bit-identical afterwards
    for (op, var) in ((1, 0), (2, 0), (5, 0), (6, 0), (5, 1), (6, 1)):
        for (rsz, asz) in ((1, 3), (0, 2), (2, 3)):
            so = (1, 1, 0) if var == 0 else (0, 0, 0)
            if op in (5, 6):
                obs.append(vg.vec_ob(op, var, 4, rsz, asz, 0, so, avx=(rsz + asz) % 2, alias=1, pmode=1, tag="inplace-prefix/", timeout=600))
            else:
                obs.append(vg.vec_ob(op, var, 4, rsz, asz, 0, so, avx=(rsz + asz) % 2, alias=1, tag="inplace-prefix/"))
    # normalization (vector, big and range forms): the source - more, as many or fewer limbs than the result - is bit-identical afterwards (C05 harness, which
    # snapshots the whole source allocation including stride padding)
    from vf.props import c05
    for (k, rsz, asz) in ((19, 1, 3), (19, 2, 3), (19, 3, 1), (62, 1, 2), (2, 2, 3), (19, 0, 2)):
        for via in (0, 1):
            obs.append(Ob("normalize/%s/k=%d/res=%d/a=%d" % ("vec" if via == 0 else "big", k, rsz, asz), c05.H, "h_vec",
                          {"K": k, "NN": 2, "RSZ": rsz, "ASZ": asz, "RSL": 3, "ASL": 4 if via == 0 else 2, "VIA": via, "AVX": (rsz + asz) % 2}, c05.LIBS, unwind=40,
                          family="normalize: source untouched", desc="vec_znx_normalize_base2k / vec_znx_big_normalize_base2k out of place: digits as in C05 and the source allocation bit-identical"))
    for (rb, re_, rs, rsz) in ((0, 3, 1, 1), (0, 4, 2, 1), (1, 4, 1, 2)):
        obs.append(Ob("normalize/range/k=19/b=%d/e=%d/s=%d/res=%d" % (rb, re_, rs, rsz), c05.H, "h_vec",
                      {"K": 19, "NN": 2, "RSZ": rsz, "RSL": 3, "VIA": 2, "RB": rb, "RE": re_, "RS": rs, "BIGSZ": 4}, c05.LIBS, unwind=40, family="normalize: source untouched"))
    # exported kernels: q120 products (x and y operands), complex-vector kernels (operands a, b), fft tables
    tq = core.tables_dir(ctx, (), ())
    obs += [o for o in c10.product_obs(ctx, tq, [2])]
    obs += c10.conv_obs(ctx, tq)  # q120 conversions and lazy additions: sources bit-identical afterwards (bit-precise assertions of the same harness)
    obs += [o for o in c17.kernel_obs(ctx) if ("rows=2" in o.name or "/m=8" in o.name or "a=2/b=2" in o.name)]
    return obs


def check(ctx, only=None, list_only=False):
    obs = obligations(ctx)
    if only:
        obs = [o for o in obs if only.search(o.name)]
    if list_only:
        for o in obs:
            print(o.name)
        return 0
    core.log("C18: %d obligations" % len(obs))
    res = core.run_all(ctx, obs)
    meta = {
        "functions_encoded": ["every public entry point of vec_znx_arithmetic.h (coefficient space, big, dft/idft, svp, vmp, small product; fft64 and ntt120)",
                              "q120 product kernels", "reim/reim4/cplx pointwise kernels, reim4 dot products and convolution"],
        "bounds": "every DFT-space entry point additionally with all buffers carved back to back out of one arena (forward and reverse order, N=8 / N=4 ntt120); shapes from the C08/C11 boxes (limb counts 0..3 in both orderings, nrows/ncols to 3x4 and 1x5, N in {4,8} (16 thorough)), both cpu flags, both module types; "
                  "snapshots cover the whole allocation of every source incl. stride padding, the MODULE, its virtual table and the precomputed objects",
        "outside": "a source that is used as scratch and restored to exactly its previous contents on every path is indistinguishable from an unmodified one in a sequential "
                   "run (the property allows it sequentially; concurrently it is C12's concern)",
        "assumptions": ["documented exceptions: vec_znx_idft_tmp_a overwrites a_dft; in-place calls overwrite the aliased source", "malloc never fails"],
    }
    return core.finish(ctx, res, meta)
