"""C08: vec_znx size/stride semantics: zero-extend, truncate, write only res limbs."""
from vf import core
from vf.props import vecops_gen as g


def obligations(ctx):
    obs = []
    smax = 3 if ctx.quick else 4
    nns = (2, 4) if ctx.quick else (2, 4, 8, 16)
    idx = 0
    for (op, var) in g.PAIRS:
        for (rsz, asz, bsz) in g.sizes_for(op, smax):
            for nn in nns:
                if var != 0 and nn != 2 and ctx.quick:
                    continue  # big variants are forwarders: N=2 only in the quick tier
                for avx in (0, 1):
                    idx += 1
                    # quick tier: entry points without an AVX twin (zero, copy, rotate, automorphism and the forwarders built on
                    # them) alternate the dispatch flag and N instead of taking the full product
                    if ctx.quick and (op in (0, 1, 5, 6) or var != 0) and (avx != (rsz + asz + bsz) % 2):
                        continue
                    strides = [g.STRIDES[idx % 3]] if ctx.quick else g.STRIDES
                    for so in strides:
                        if op in (5, 6):
                            # size/stride semantics of the wrappers: concrete p (rotating through a small set incl.
                            # negative and > 2N); "every p" is C09's obligation
                            pv = ([1, nn + 1, -1, 2 * nn + 3, -(1 << 62) + 1] if op == 5 else [3, 2 * nn - 1, 5, -3, 4 * nn + 1])[idx % 5]
                            obs.append(g.vec_ob(op, var, nn, rsz, asz, bsz, so, avx, pmode=0, p=pv))
                        else:
                            obs.append(g.vec_ob(op, var, nn, rsz, asz, bsz, so, avx))
    # the same size semantics when the output is one of the inputs (zero extension / truncation of an in-place call): copy, negate, add, sub with
    # res==a, rotate / automorphism in place with p symbolic (identity rotations p = 0 mod 2N included), small and big forms
    for (op, var) in ((1, 0), (2, 0), (3, 0), (4, 0)):
        for (rsz, asz, bsz) in ((3, 1, 2), (1, 3, 0), (2, 0, 1), (0, 2, 2)):
            obs.append(g.vec_ob(op, var, 2, rsz, asz, bsz if op in (3, 4) else 0, (0, 0, 0), (rsz + asz) % 2, alias=1, tag="inplace/"))
    for (op, var) in ((5, 0), (6, 0), (5, 1), (6, 1)):
        for (rsz, asz) in ((2, 1), (3, 1), (1, 3), (2, 0)):
            so = (1, 1, 0) if var == 0 else (0, 0, 0)
            obs.append(g.vec_ob(op, var, 2, rsz, asz, 0, so, avx=(rsz + asz) % 2, alias=1, pmode=1, tag="inplace/", timeout=600 if ctx.quick else 3000))
    # in place on limb 0 only: same pointer, different strides, a single input limb zero-extended at another stride
    for (op, var) in ((1, 0), (2, 0), (5, 0), (6, 0)):
        for (rsz, so) in ((3, (3, 0, 0)), (1, (0, 2, 0))):
            if op in (5, 6):
                obs.append(g.vec_ob(op, var, 4, rsz, 1, 0, so, avx=rsz % 2, alias=4, pmode=1, tag="inplace/", timeout=600 if ctx.quick else 3000))
            else:
                obs.append(g.vec_ob(op, var, 4, rsz, 1, 0, so, avx=rsz % 2, alias=4, tag="inplace/"))
    # equal padded strides for every operand (res_sl == a_sl == b_sl == N+2: "same layout" fast paths must still respect the gaps and the extents)
    for (op, var) in g.PAIRS:
        for (rsz, asz, bsz) in ((2, 2, 2), (3, 1, 2), (1, 3, 1)):
            if var != 0:
                continue  # big vectors are contiguous by definition
            for avx in (0, 1):
                if op in (5, 6):
                    obs.append(g.vec_ob(op, var, 4, rsz, asz, 0, (2, 2, 2), avx, pmode=0, p=3, tag="eqstride/"))
                else:
                    obs.append(g.vec_ob(op, var, 4, rsz, asz if op else 0, bsz if op in (3, 4) else 0, (2, 2, 2), avx, tag="eqstride/"))
    # N=8 (two AVX iterations) on a reduced size set, large stride with sparse buffers is thorough only
    for (op, var) in ((3, 0), (4, 0), (2, 0), (1, 0), (0, 0)):
        for (rsz, asz, bsz) in [s for s in g.sizes_for(op, 2)]:
            obs.append(g.vec_ob(op, var, 8, rsz, asz, bsz, (1, 0, 2), 1, tag="n8/"))
    return obs


def check(ctx, only=None, list_only=False):
    obs = obligations(ctx)
    if only:
        obs = [o for o in obs if only.search(o.name)]
    if list_only:
        for o in obs:
            print(o.name)
        return 0
    core.log("C08: %d obligations" % len(obs))
    res = core.run_all(ctx, obs)
    meta = {
        "functions_encoded": ["vec_znx_{zero,copy,negate,add,sub,rotate,automorphism} (public wrappers, _ref and _avx forms)",
                              "vec_znx_big_{add,add_small,add_small2,sub,sub_small_a,sub_small_b,sub_small2,rotate,automorphism} + fft64_ forwarders",
                              "znx_{add,sub,negate}_i64_{ref,avx}", "znx_copy_i64_ref", "znx_zero_i64_ref", "znx_rotate(_inplace)_i64",
                              "znx_automorphism(_inplace)_i64", "fill_virtual_table (real dispatch table, both CPU flags)"],
        "bounds": "limb counts 0..3 (0..4 thorough) in ALL orderings of (res,a,b); strides N..N+3 (rotating combination per shape in quick, all 3 "
                  "combinations thorough); N in {2,4} (+8 on sizes 0..2; thorough adds 8,16); both dispatch flags; rotation/automorphism wrappers with concrete p from a 5-value set "
                  "(every p is decided in C09); all coefficient values symbolic 64-bit",
        "outside": "limb counts > 3 (4), N > 8 (16), strides > N+3, in-place calls beyond the listed slice (all aliasing patterns are C13), NTT120 module type for big variants (the library has none)",
        "assumptions": ["malloc never fails", "buffers are exactly-sized heap objects (size-1)*stride+N words",
                        "module table from the real fill_virtual_table with CPU detection replaced by a flag; table builders not run"],
    }
    return core.finish(ctx, res, meta)
