"""C14: numeric layout conversions are exact or correctly rounded on their whole domain."""
from vf import core
from vf.core import Ob

LIBS = ["reim/reim_conversions.c", "reim/reim_conversions_avx.c", "reim/reim_to_tnx_ref.c", "reim/reim_to_tnx_avx.c", "reim/reim_execute.c",
        "cplx/cplx_conversions.c", "cplx/cplx_conversions_avx2_fma.c", "cplx/cplx_execute.c", "commons.c", "commons_private.c"]
H = "conv.c"


def ob(name, entry, defs, family, desc="", timeout=None):
    return Ob(name, H, entry, defs, LIBS, unwind=70, family=family, desc=desc, timeout=timeout)


def obligations(ctx):
    obs = []
    q = ctx.quick
    # int64 -> double
    for (m, avx) in ((1, 0), (2, 1), (4, 1), (8, 0), (8, 1)) + (() if q else ((16, 1),)):
        obs.append(ob("from_znx64/init/m=%d/avx=%d" % (m, avx), "h_from_znx64", {"M": m, "AVX": avx}, "reim_from_znx64 via init_reim_from_znx64_precomp",
                      "all |x|<2^50 on every lane: result bit-equal to (double)x; kernel selected by the real init"))
    obs.append(ob("from_znx64/direct/ref", "h_from_znx64", {"M": 2, "DIRECT": "reim_from_znx64_ref"}, "reim_from_znx64_ref"))
    obs.append(ob("from_znx64/direct/bnd50_fma", "h_from_znx64", {"M": 2, "DIRECT": "reim_from_znx64_bnd50_fma"}, "reim_from_znx64_bnd50_fma"))
    # double -> int64
    divs = [0, 1, 4, 16] if q else list(range(0, 17))
    for dl in divs:
        obs.append(ob("to_znx64/direct/ref/d=2^%d" % dl, "h_to_znx64", {"M": 2, "DIVLOG": dl, "DOMLOG": 52, "DIRECT": "reim_to_znx64_ref"}, "reim_to_znx64_ref",
                      "all |x/d|<2^52: |out*d-x|<=d/2 (monotone-rounding argument in the harness)"))
        obs.append(ob("to_znx64/direct/bnd50/d=2^%d" % dl, "h_to_znx64", {"M": 2, "DIVLOG": dl, "DOMLOG": 50, "DIRECT": "reim_to_znx64_avx2_bnd50_fma"},
                      "reim_to_znx64_avx2_bnd50_fma", "all |x/d|<2^50"))
        obs.append(ob("to_znx64/direct/bnd63/d=2^%d" % dl, "h_to_znx64", {"M": 2, "DIVLOG": dl, "DOMLOG": 52, "DIRECT": "reim_to_znx64_avx2_bnd63_fma"},
                      "reim_to_znx64_avx2_bnd63_fma", "all |x/d|<2^52"))
    for (m, avx) in ((8, 1), (16, 1), (4, 1), (8, 0)):
        obs.append(ob("to_znx64/select/m=%d/avx=%d/every-log2bound" % (m, avx), "h_to_znx64_select", {"M": m, "AVX": avx, "DIVLOG": 3},
                      "init_reim_to_znx64_precomp", "declared bound symbolic in [0,64]: the kernel valid for |x/d|<2^50 only is never selected for a larger declared bound"))
    for (m, avx, lb) in ((8, 1, 50), (8, 1, 51), (8, 1, 63), (8, 0, 63), (4, 1, 63), (1, 1, 50)) + (() if q else ((8, 1, 52), (8, 1, 53), (16, 1, 51))):
        obs.append(ob("to_znx64/init/m=%d/avx=%d/log2bound=%d" % (m, avx, lb), "h_to_znx64", {"M": m, "AVX": avx, "LOG2BOUND": lb, "DIVLOG": 3 if m > 1 else 0},
                      "reim_to_znx64 via init_reim_to_znx64_precomp", timeout=900))
    # double -> torus double; constants from the real init_reim_to_tnx_precomp.  The unsplit query (all |x/d|<=2^L in one go) is not
    # decided by any SAT back end here (300 s probe), so every exponent class of x/d is its own query: e in [-40, L] with constant
    # exponent bits, plus the class |x/d| < 2^-40 (symbolic exponent, absorbed by the additive constant).  The union is the whole domain.
    Ls_ref = [0, 18, 29, 48] if q else list(range(0, 49))
    Ls_avx = [29] if q else list(range(0, 49))
    for (Ls, direct, m, tag) in ((Ls_ref, "reim_to_tnx_ref", 1, "ref"), (Ls_avx, "reim_to_tnx_avx", 4, "avx")):
        for L in Ls:
            dl = (L * 5) % 17
            classes = [("e=%d" % e, {"XEXP": e}) for e in range(-40, L + 1)] + [("tiny", {"TINY": -40})]
            for (cn, cd) in classes:
                d = {"M": m, "L": L, "DIVLOG": dl, "DIRECT": direct}
                d.update(cd)
                obs.append(ob("to_tnx/%s/L=%d/d=2^%d/%s" % (tag, L, dl, cn), "h_to_tnx", d, direct,
                              "all x with x/d in one exponent class, |x/d|<=2^L: |out-(x/d-rint(x/d))|<=2^(L-50) mod 1", timeout=900))
    for (m, avx) in ((8, 1), (8, 0), (2, 1)) if not q else ((8, 1), (2, 1)):
        obs.append(ob("to_tnx/init/m=%d/avx=%d" % (m, avx), "h_to_tnx", {"M": m, "AVX": avx, "L": 18, "DIVLOG": 1, "XEXP": 11}, "reim_to_tnx via init (kernel selection)", timeout=900))
    obs.append(ob("to_tnx/basic_ref", "h_to_tnx", {"M": 1, "L": 30, "DIVLOG": 3, "DIRECT": "reim_to_tnx_basic_ref", "XEXP": 7}, "reim_to_tnx_basic_ref"))
    # int32 -> complex
    for tnx in (0, 1):
        nm = "tnx32" if tnx else "znx32"
        obs.append(ob("cplx_from_%s/direct/ref" % nm, "h_cplx_from32", {"M": 2, "TNX": tnx, "DIRECT": "cplx_from_%s_ref" % nm}, "cplx_from_%s_ref" % nm,
                      "every int32 on every lane: exact complex value"))
        obs.append(ob("cplx_from_%s/direct/avx2_fma" % nm, "h_cplx_from32", {"M": 8, "TNX": tnx, "DIRECT": "cplx_from_%s_avx2_fma" % nm}, "cplx_from_%s_avx2_fma" % nm))
        for (m, avx) in ((4, 1), (8, 1), (8, 0), (16, 1)):
            obs.append(ob("cplx_from_%s/init/m=%d/avx=%d" % (nm, m, avx), "h_cplx_from32", {"M": m, "TNX": tnx, "AVX": avx}, "cplx_from_%s via init" % nm))
    # complex -> torus32
    for dl in ([0, 4, 16] if q else list(range(0, 17))):
        obs.append(ob("cplx_to_tnx32/direct/ref/d=2^%d" % dl, "h_cplx_to_tnx32", {"M": 1, "DIVLOG": dl, "DIRECT": "cplx_to_tnx32_ref"}, "cplx_to_tnx32_ref",
                      "all |x/d|<2^18: out == round(x*2^32/d) mod 2^32, exact .5 ties excluded"))
        obs.append(ob("cplx_to_tnx32/direct/avx2_fma/d=2^%d" % dl, "h_cplx_to_tnx32", {"M": 8, "DIVLOG": dl, "DIRECT": "cplx_to_tnx32_avx2_fma"},
                      "cplx_to_tnx32_avx2_fma", timeout=1200))
    for (m, avx) in ((8, 1), (8, 0), (4, 1)):
        obs.append(ob("cplx_to_tnx32/init/m=%d/avx=%d" % (m, avx), "h_cplx_to_tnx32", {"M": m, "AVX": avx, "DIVLOG": 2}, "cplx_to_tnx32 via init", timeout=1200))
    # the public constructors new_*_precomp against init_* for the same arguments (declared bound / overhead symbolic), incl. release of the object
    WK = {0: "reim_from_znx64", 1: "reim_to_znx64", 2: "reim_to_tnx", 3: "cplx_to_tnx32", 4: "reim4_from_cplx", 5: "reim4_to_cplx", 6: "reim4_fftvec_mul",
          7: "reim4_fftvec_addmul", 8: "cplx_fftvec_mul", 9: "cplx_fftvec_addmul", 10: "cplx_from_znx32", 11: "cplx_from_tnx32"}
    WLIBS = LIBS + [x for x in ("reim4/reim4_fftvec_addmul_ref.c", "reim4/reim4_fftvec_addmul_fma.c", "reim4/reim4_fftvec_conv_ref.c", "reim4/reim4_fftvec_conv_fma.c",
                                "reim4/reim4_execute.c", "cplx/cplx_fftvec_ref.c", "cplx/cplx_fftvec_avx2_fma.c", "cplx/cplx_execute.c", "cplx/cplx_common.c",
                                "reim/reim_to_tnx_ref.c", "reim/reim_to_tnx_avx.c") if x not in LIBS]
    for kind in sorted(WK):
        for (m, avx) in ((8, 1), (4, 0)) if kind <= 3 else (((8, 1), (4, 1)) if kind >= 10 else ((8, 1),)):
            obs.append(Ob("constructor/new_%s_precomp/m=%d/avx=%d" % (WK[kind], m, avx), "wrappers.c", "h_wrappers", {"KIND": kind, "M": m, "AVX": avx, "DIVLOG": 3}, WLIBS,
                          unwind=20, flags=["--memory-leak-check"], family="new_*_precomp constructors", timeout=600,
                          desc="new_X_precomp(m, ...) returns an object whose every field equals what init_X_precomp computes for the same arguments (log2bound / "
                               "log2overhead symbolic over its whole range), and frees cleanly"))
    # the conversions reached through their caching *_simple entry points: after calls with other dimensions, divisors and bounds / overheads the
    # result is that of a freshly initialised table for the arguments of the call (shared harness and analysis with C15)
    from vf.props import c15
    obs += [o for o in c15.history_obs(ctx) if any(x in o.name for x in ("reim_to_znx64_simple", "reim_from_znx64_simple", "cplx_to_tnx32_simple", "cplx_from_znx32_simple", "cplx_from_tnx32_simple"))
            and ("/avx=1" in o.name or "same-dim" in o.name)]
    return obs


def check(ctx, only=None, list_only=False):
    obs = obligations(ctx)
    if only:
        obs = [o for o in obs if only.search(o.name)]
    if list_only:
        for o in obs:
            print(o.name)
        return 0
    core.log("C14: %d obligations" % len(obs))
    res = core.run_all(ctx, obs)
    meta = {
        "functions_encoded": ["reim_from_znx64_{ref,bnd50_fma}", "init_reim_from_znx64_precomp", "reim_to_znx64_{ref,avx2_bnd50_fma,avx2_bnd63_fma}",
                              "init_reim_to_znx64_precomp", "init_reim_to_tnx_precomp", "reim_to_tnx_{ref,avx,basic_ref}", "cplx_from_znx32_{ref,avx2_fma}",
                              "cplx_from_tnx32_{ref,avx2_fma}", "cplx_to_tnx32_{ref,avx2_fma}", "init_cplx_*_precomp", "dispatch wrappers"],
        "bounds": "declared bound of init_reim_to_znx64_precomp symbolic in [0,64] (kernel selection) and executed at log2bound 50, 51, 63; one to four vectors of lanes (m as listed per obligation), EVERY lane symbolic over the whole documented window; divisors 2^0,2^1,2^4,2^16 "
                  "(all 2^0..2^16 thorough); log2overhead every value 0..48; both cpu flags through the real init_* selection logic",
        "outside": "divisors outside 2^0..2^16; m > 16 (more lanes repeat the same loop body); reim_from_znx32/tnx32 and reim_to_tnx32 are NOT_IMPLEMENTED stubs in the library",
        "assumptions": ["IEEE-754 binary64 round-to-nearest-even as modelled bit-precisely by CBMC", "rint() is CBMC's round-to-nearest-even model",
                        "torus results compared modulo 1 at the +-1/2 boundary", "exact .5 ties excluded for complex->torus32 (documented)"],
    }
    return core.finish(ctx, res, meta)
