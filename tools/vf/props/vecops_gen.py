"""Obligation generators for the limb-vector harness (harness/vecops.c), shared by C08, C09, C13, C18."""
import itertools
from vf.core import Ob

LIBS = ["coeffs/coeffs_arithmetic.c", "coeffs/coeffs_arithmetic_avx.c", "arithmetic/vec_znx.c",
        "arithmetic/vec_znx_avx.c", "arithmetic/vec_znx_big.c", "commons.c", "commons_private.c"]
H = "vecops.c"
OPN = {0: "zero", 1: "copy", 2: "negate", 3: "add", 4: "sub", 5: "rotate", 6: "automorphism"}
VARN = {0: "small", 1: "big", 2: "big+small_b", 3: "small_a+big", 4: "small2"}
# which (op,var) pairs exist in the API
PAIRS = [(0, 0), (1, 0), (2, 0), (3, 0), (4, 0), (5, 0), (6, 0),
         (3, 1), (4, 1), (5, 1), (6, 1), (3, 2), (4, 2), (4, 3), (3, 4), (4, 4)]
STRIDES = [(0, 0, 0), (1, 3, 0), (3, 0, 1)]  # offsets added to N for (res,a,b)

# loops of coeffs_arithmetic.c whose trip count depends on p: with symbolic p they get the tight
# bound N+2 (every one of them runs at most N iterations); all other loops are concrete and use
# the generous global bound.  A bound that is too small fails its unwinding assertion.
P_LOOPS = {"znx_rotate_i64": 4, "rnx_rotate_f64": 4, "znx_mul_xp_minus_one": 4, "rnx_mul_xp_minus_one": 4,
           "znx_rotate_inplace_i64": 2, "rnx_rotate_inplace_f64": 2, "rnx_mul_xp_minus_one_inplace": 2,
           "znx_automorphism_inplace_i64": 6, "rnx_automorphism_inplace_f64": 6}


def p_unwindset(nn):
    return ",".join("%s.%d:%d" % (f, i, nn + 2) for f, n in sorted(P_LOOPS.items()) for i in range(n))



def vec_ob(op, var, nn, rsz, asz, bsz, so=(0, 0, 0), avx=0, alias=0, pmode=0, p=1, pr=1, unwind=80, tag="", family=None, timeout=None):
    d = {"OP": op, "VAR": var, "NN": nn, "RSZ": rsz, "ASZ": asz, "BSZ": bsz, "RSL": nn + so[0], "ASL": nn + so[1],
         "BSL": nn + so[2], "AVX": avx, "ALIAS": alias, "PMODE": pmode}
    name = "%s%s/%s/N=%d/r%d.a%d.b%d/sl+%d.%d.%d/avx=%d" % (tag, OPN[op], VARN[var], nn, rsz, asz, bsz, so[0], so[1], so[2], avx)
    if alias:
        name += "/alias=%d" % alias
    if op in (5, 6):
        if pmode == 0:
            d["P"] = "INT64_C(%d)" % p if p > -(1 << 63) else "INT64_MIN"
            name += "/p=%d" % p
        elif pmode == 1:
            name += "/p=any"
        else:
            d["PR"] = pr
            name += "/p=%d+2Nq" % pr
    return Ob(name, H, "h_vecop", d, LIBS, unwind=unwind, family=family or ("%s %s" % (OPN[op], VARN[var])), timeout=timeout,
              unwindset=p_unwindset(nn) if (op in (5, 6) and pmode != 0) else None,
              desc="public API call with exactly-sized heap buffers, all data symbolic: limb i = op(limbs i, missing=0); "
                   "padding, limbs past res_size and sources bit-identical afterwards")


def sizes_for(op, smax):
    r = range(smax + 1)
    if op == 0:
        return [(x, 0, 0) for x in r]
    if op in (1, 2, 5, 6):
        return [(x, y, 0) for x in r for y in r]
    return list(itertools.product(r, r, r))


def kernel_ob(kop, dbl, nn, pmode=0, p=1, pr=1, unwind=80, timeout=None, concrete=False):
    kn = {0: "rotate", 1: "mul_xp_minus_one", 2: "automorphism"}[kop]
    d = {"KOP": kop, "DBL": dbl, "NN": nn, "PMODE": pmode}
    if concrete:
        d["CONCRETE_PROBE"] = None
        d["VF_NOLOG"] = None
    name = "kernel%s/%s/%s/N=%d" % ("-probe" if concrete else "", kn, "f64" if dbl else "i64", nn)
    if pmode == 0:
        d["P"] = "INT64_C(%d)" % p if p > -(1 << 63) else "INT64_MIN"
        name += "/p=%d" % p
    elif pmode == 1:
        name += "/p=any"
    else:
        d["PR"] = pr
        name += "/p=%d+2Nq" % pr
    if kop == 1 and dbl:
        d["PROBE"] = None
        name += "/probe-data"
    o = Ob(name, H, "h_kernel", d, LIBS, unwind=unwind, timeout=timeout, unwindset=p_unwindset(nn) if pmode != 0 else None, family="kernel %s %s" % (kn, "f64" if dbl else "i64"),
           desc="raw kernel, out-of-place and in-place on the same symbolic data, both equal the signed permutation j->(j+p) / j*p mod 2N")
    if concrete:
        o.flags = ["--max-field-sensitivity-array-size", str(nn + 8)]
        o.family += " (concrete probe, large N)"
        o.desc = "large N: concrete injective probe vector and concrete p executed by the symbolic engine; out-of-place and in-place results equal the signed permutation"
    return o
