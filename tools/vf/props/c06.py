"""C06: reim/cplx FFT and iFFT equal the mathematical transform, in documented order."""
from vf import core
from vf.core import AlgOb

REIM = ["reim/reim_fft_ref.c", "reim/reim_ifft_ref.c", "reim/reim_fft_ifft.c", "reim/reim_execute.c", "reim/reim_fft_avx2.c",
        "reim/reim_ifft_avx2.c", "reim/reim_fft4_avx_fma.c", "reim/reim_fft8_avx_fma.c", "reim/reim_ifft4_avx_fma.c",
        "reim/reim_ifft8_avx_fma.c", "reim/reim_fft16_avx_fma.s", "reim/reim_ifft16_avx_fma.s", "commons_private.c", "commons.c"]
CPLX = ["cplx/cplx_fft_ref.c", "cplx/cplx_ifft_ref.c", "cplx/cplx_fft_avx2_fma.c", "cplx/cplx_ifft_avx2_fma.c", "cplx/cplx_fft16_avx_fma.s",
        "cplx/cplx_ifft16_avx_fma.s", "cplx/cplx_execute.c", "cplx/cplx_common.c", "cplx/cplx_fft_asserts.c", "commons_private.c", "commons.c"]
KN = {0: "reim_fft", 1: "reim_ifft", 2: "cplx_fft", 3: "cplx_ifft"}


def obligations(ctx):
    ms = [1, 2, 4, 8, 16, 32, 64] if ctx.quick else [1, 2, 4, 8, 16, 32, 64, 128, 256]
    tdir = core.tables_dir(ctx, ms, ())
    obs = []
    for kind in (0, 1, 2, 3):
        for m in ms:
            for avx in (0, 1):
                obs.append(AlgOb("%s/m=%d/avx=%d" % (KN[kind], m, avx), "fft.c", "h_fft", "vf.alg.fft:check_fft",
                                 params={"kind": kind, "m": m}, defs={"KIND": kind, "M": m, "AVX": avx},
                                 libs=REIM if kind < 2 else CPLX, unwind=max(4 * m + 8, 48), inc=[tdir], family="%s avx=%d" % (KN[kind], avx),
                                 timeout=600 if ctx.quick else 3600, mem_gb=16,
                                 desc="real transform code on the real table, all 2m inputs symbolic: output j is the linear form "
                                      "sum_k c_jk x_k; c_jk vs omega^((1+4 bitrev j)k) and rounding radii; sound unit-input alarm rule"))
    obs += layout_obs(ctx)
    obs += schedule_obs(ctx)
    from vf.props import c15
    obs += c15.simple_all_obs(ctx)  # the transforms reached through their caching *_simple entry points: the right table for every dimension 2^0..2^16
    return obs


def schedule_obs(ctx):
    """pass schedule of the reim drivers, AVX2 vs reference, for every m = 32..65536 (kernels replaced by logging stand-ins)"""
    obs = []
    libs = ["reim/reim_fft_ref.c", "reim/reim_ifft_ref.c", "reim/reim_fft_avx2.c", "reim/reim_ifft_avx2.c", "commons_private.c", "commons.c"]
    fwd = ["reim_fft16_ref", "reim_twiddle_fft_ref", "reim_bitwiddle_fft_ref", "reim_fft16_avx_fma", "reim_twiddle_fft_avx2_fma", "reim_bitwiddle_fft_avx2_fma"]
    inv = ["reim_ifft16_ref", "reim_invtwiddle_ifft_ref", "reim_invbitwiddle_ifft_ref", "reim_ifft16_avx_fma", "reim_invtwiddle_ifft_avx2_fma", "reim_invbitwiddle_ifft_avx2_fma"]
    for kind in (0, 1):
        for lg in range(5, 17):
            m = 1 << lg
            o = core.Ob("schedule/%s/avx2-vs-ref/m=%d" % (KN[kind], m), "sched.c", "h_sched", {"KIND": kind, "M": m}, libs, unwind=max(m // 16 + 40, 200),
                        flags=[], family="%s driver schedule" % KN[kind], timeout=900, mem_gb=16,
                        desc="the real reference and AVX2 drivers executed with the pass kernels replaced by logging stand-ins: the AVX2 driver issues exactly the passes of the "
                             "reference driver (kind, h, data slice, twiddle slice), for this m")
            o.stubs = fwd if kind == 0 else inv
            obs.append(o)
    return obs


def schedule_writeset_obs(ctx, tag="writeset/"):
    """C12: the reim drivers above the breadth-first / depth-first switch (m > 2048) assign no shared static-lifetime object (kernels replaced by the logging stand-ins,
    whose own digests are ignored by name): the module-level write-set obligations run at N <= 16 and never reach the recursive large-dimension paths"""
    obs = []
    libs = ["reim/reim_fft_ref.c", "reim/reim_ifft_ref.c", "reim/reim_fft_avx2.c", "reim/reim_ifft_avx2.c", "commons_private.c", "commons.c"]
    fwd = ["reim_fft16_ref", "reim_twiddle_fft_ref", "reim_bitwiddle_fft_ref", "reim_fft16_avx_fma", "reim_twiddle_fft_avx2_fma", "reim_bitwiddle_fft_avx2_fma"]
    inv = ["reim_ifft16_ref", "reim_invtwiddle_ifft_ref", "reim_invbitwiddle_ifft_ref", "reim_ifft16_avx_fma", "reim_invtwiddle_ifft_avx2_fma", "reim_invbitwiddle_ifft_avx2_fma"]
    for kind in (0, 1):
        for m in (64, 2048, 4096, 8192):
            o = core.AlgOb("%s%s-drivers/m=%d" % (tag, KN[kind], m), "sched.c", "h_sched", "vf.alg.uf:check_shared_writes",
                           params={"marker": "vf_marker", "statics_only": True, "ignore": r"^vf_|^VF_", "nin": 4}, defs={"KIND": kind, "M": m}, libs=libs,
                           unwind=max(m // 16 + 40, 200), family="%s drivers (write set)" % KN[kind], timeout=900, mem_gb=16,
                           desc="reference and AVX2 drivers of dimension m (both sides of the m = 2048 switch to the recursive path), pass kernels replaced by logging stand-ins: "
                                "no static-lifetime object of the library is assigned during the transforms (a cursor or scratch kept in a file-scope static is a data race "
                                "between concurrent transforms); confirmed natively by ThreadSanitizer on two threads")
            o.stubs = fwd if kind == 0 else inv
            o.bit_flags = []
            obs.append(o)
    return obs


def layout_obs(ctx):
    """placement of the twiddle table and of the work buffers inside the object built by the real new_*_precomp(m, num_buffers)"""
    obs = []
    for kind in (0, 1, 2, 3):
        for (m, nb) in ((1, 1), (2, 2), (4, 1), (4, 3), (8, 2), (8, 3)):  # m = 16: the fill functions for m >= 16 exhaust 40 GB / 2 h here
            obs.append(core.Ob("precomp-layout/%s/m=%d/buffers=%d" % (KN[kind], m, nb), "precomp.c", "h_precomp", {"KIND": kind, "M": m, "NB": nb, "AVX": (m // 4) % 2},
                               REIM if kind < 2 else CPLX, unwind=max(4 * m + 8, 48), flags=["--slice-formula"], family="%s precomp layout" % KN[kind], timeout=600 if ctx.quick else 7200, mem_gb=10 if ctx.quick else 40,
                               desc="the real builder, then every work buffer from *_precomp_get_buffer filled with arbitrary data: writes stay inside the allocation, "
                                    "the table region the kernels read is bit-for-bit unchanged, the buffers keep what was written (pairwise disjoint)"))
    return obs


def check(ctx, only=None, list_only=False):
    obs = obligations(ctx)
    if only:
        obs = [o for o in obs if only.search(o.name)]
    if list_only:
        for o in obs:
            print(o.name)
        return 0
    core.log("C06: %d obligations" % len(obs))
    res = core.run_all(ctx, obs)
    meta = {
        "functions_encoded": ["reim_fft_ref", "reim_ifft_ref", "reim_fft_avx2_fma", "reim_ifft_avx2_fma", "reim_fft{4,8}_avx_fma", "reim_ifft{4,8}_avx_fma",
                              "reim_fft16_avx_fma.s / reim_ifft16_avx_fma.s (transpiled)", "cplx_fft_ref", "cplx_ifft_ref", "cplx_fft_avx2_fma",
                              "cplx_ifft_avx2_fma", "cplx_fft16_avx_fma.s / cplx_ifft16_avx_fma.s (transpiled)", "reim_fft / reim_ifft / cplx_fft / cplx_ifft (dispatch)"],
        "bounds": "m in {1,2,4,8,16,32,64} (thorough: 128, 256): every leaf size, the odd-log2 first pass, the radix-4 passes, the m<=16 switch; "
                  "every implementation selected by the real builders for each cpu flag; all 2m inputs symbolic reals; precomp layout: the real new_{reim,cplx}_{fft,ifft}_precomp(m, nb) run symbolically for (m, nb) in {(1,1),(2,2),(4,1),(4,3),(8,2),(8,3)} (the fill functions for m >= 16 exhaust the SAT back end here even with 40 GB; the placement arithmetic is the same expression for every m)",
        "outside": "m >= 128 (512 thorough) and hence the 2048 bfs/recursive threshold; the property's norm-wise constant for ALL inputs is not decided: "
                   "what is decided is (a) the component-wise certificate reported in evidence and (b) the sound alarm rule on unit inputs; "
                   "overflow/underflow (inputs assumed in a magnitude window where no intermediate leaves the normal range); AVX-512/SSE/NEON units",
        "assumptions": ["IEEE-754 binary64, round-to-nearest-even, standard model |delta|<=2^-53 per operation, no over/underflow",
                        "tables and selected kernels dumped natively from the real builders of the working tree (libm sin/cos not re-verified)",
                        "log2() on powers of two is exact (harness stub)", "precomp layout: sin/cos have no body for the symbolic front end (table values arbitrary, placement exact); the table region is the 2m (reim) / 4m (cplx) doubles the builders reserve"],
        "technique_detail": "CBMC symbolic execution of the real code -> exported VC -> vcalg Real domain (exact dyadic linear forms + rounding radii) -> "
                            "comparison with 200-bit mpmath roots of unity; bit-precise CBMC run for memory safety and table immutability",
    }
    return core.finish(ctx, res, meta)
