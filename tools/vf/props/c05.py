"""C05: base-2^k normalization yields the unique balanced digit expansion."""
from vf import core
from vf.core import Ob

LIBS = ["coeffs/coeffs_arithmetic.c", "coeffs/coeffs_arithmetic_avx.c", "arithmetic/vec_znx.c",
        "arithmetic/vec_znx_avx.c", "arithmetic/vec_znx_big.c", "commons.c", "commons_private.c"]
H = "c05_normalize.c"


def obligations(ctx):
    obs = []
    ks_all = list(range(1, 63))
    ks_vec = ks_all if not ctx.quick else [1, 2, 19, 32, 61, 62]
    # (1) primitive: every k, every argument shape
    for k in ks_all:
        for shape in (0, 1, 2, 3, 6, 7):
            obs.append(Ob("prim/k=%d/shape=%d" % (k, shape), H, "h_prim", {"K": k, "SHAPE": shape}, LIBS,
                          unwind=40, family="znx_normalize primitive",
                          desc="znx_normalize, nn=2, all |in|<=2^62, all carry_in of the documented 65-k bits (|cin|<=2^62 at k=1): exact 128-bit identity, digit range, inputs untouched"))
    # (2) vector level through the module dispatch, all (res_size,a_size) in 0..3 (0..4 thorough)
    smax = 3 if ctx.quick else 4
    for k in ks_vec:
        for nn in ((1, 2) if (not ctx.quick or k == 19) else (1,)):
            for rsz in range(smax + 1):
                for asz in range(smax + 1):
                    obs.append(Ob("vec/k=%d/nn=%d/res=%d/a=%d" % (k, nn, rsz, asz), H, "h_vec",
                                  {"K": k, "NN": nn, "RSZ": rsz, "ASZ": asz, "RSL": nn + 1, "ASL": nn + 2, "VIA": 0}, LIBS,
                                  unwind=40, family="vec_znx_normalize_base2k",
                                  desc="vec_znx_normalize_base2k via module table: digits of T mod 2^(k*a_size), zero extension, only res limbs written, input untouched"))
    # loop structure for every (res_size, a_size) up to 10 with the per-limb primitive uninterpreted: one obligation per a_size (res_size, k symbolic);
    # thorough: additionally both sizes and the strides symbolic in one query (20 min)
    sm = 10
    for asz in range(0, sm + 1):
        # generic native probe (tried when the solver's own values - chosen under the uninterpreted reading - do not show the mismatch with the real primitive):
        # res_size 1, k 62, a chain of limbs on the balanced boundary with the +1 carry born in the lowest limb
        probe = [1, 62] + [(1 << 61) if i == asz - 1 else (1 << 61) - 1 for i in range(sm)] + [0] * (sm + 1)
        obs.append(Ob("schedule/vec_znx_normalize_base2k_ref/N=1/a=%d/res<=%d" % (asz, sm), "c05_sched.c", "h_sched", {"SMAX": sm, "NNV": 1, "ASZ": asz, "FIXED_STRIDES": None},
                      ["arithmetic/vec_znx.c"], unwind=2 * sm + 3, family="normalize loop structure (uninterpreted primitive)", timeout=900,
                      desc="res_size in [0,10] and k in [1,62] symbolic; znx_normalize replaced by uninterpreted digit/carry functions (the primitive is decided by prim/): every "
                           "output limb is the digit of its input limb with the carry threaded through EVERY lower limb, zero extension, nothing else written"))
        obs[-1].probe_inputs = probe
    # the same loop structure for EVERY ring dimension N = 2^0 .. 2^16 (N is a solver variable): projection onto one symbolic coefficient column with the memory
    # modelled by the cells of that column only (c05_sched.c, h_sched_proj) - a driver that tiles, blocks or switches path with N is covered
    smp = 4  # sizes <= 6 with 70 unwindings: 800 s and more per obligation on a loaded machine
    for asz in range(0, smp + 1):
        # probe: N = 4096, res_size 2, k 62, both strides N, last column, every limb 2^61 (digit -2^61, carry +1 at every limb)
        probe = [12, 2, 62, 0, 0, 4095] + [(1 << 61)] * smp
        o = Ob("schedule-everyN/vec_znx_normalize_base2k_ref/a=%d/res<=%d" % (asz, smp), "c05_sched.c", "h_sched_proj", {"SMAX": smp, "ASZ": asz, "PROJ": None, "LGMAX": 16},
               ["arithmetic/vec_znx.c"], unwind=2 * smp + 2, family="normalize loop structure, every N (projection on a symbolic column)", timeout=900,
               desc="N = 2^lg with lg in [0,16], the column j < N, res_size <= %d, k in [1,62] and both strides symbolic; the elementwise primitive is replaced by its uninterpreted "
                    "step on the cells of column j (decided from pointer offsets alone, other columns clobber): column j of every output limb is the digit chain of column j of "
                    "the input, for every N and however the driver tiles the coefficients" % smp)
        o.probe_inputs = probe
        obs.append(o)
    if not ctx.quick:
        for nnv in (1, 2):
            smx = 10 if nnv == 1 else 6
            obs.append(Ob("schedule/vec_znx_normalize_base2k_ref/N=%d/sizes<=%d/all-symbolic" % (nnv, smx), "c05_sched.c", "h_sched", {"SMAX": smx, "NNV": nnv}, ["arithmetic/vec_znx.c"],
                          unwind=smx * (nnv + 1) + 3, family="normalize loop structure (uninterpreted primitive)", timeout=7200,
                          desc="as above with res_size, a_size, both strides and k symbolic in one query"))
    # long chains of dropped low limbs (a carry of +-1 born far below the kept digits travels through limbs sitting on the balanced boundary):
    # a_size - res_size up to 7 at N=1 for a spread of k
    deep = [(62, 1, 4), (62, 2, 5), (32, 1, 4), (32, 1, 5)]
    if not ctx.quick:
        # (k=13,a=7), (k=8,a=8), (k=11,a=7), (k=16,a=7) do not finish in 2 h each: one limb less
        deep += [(32, 2, 6), (19, 1, 6), (19, 2, 6), (13, 1, 6), (8, 1, 7), (2, 1, 8)] + [(k, 1, a) for k in (3, 5, 11, 16, 21, 31, 33, 47, 61) for a in (5, 7) if (k, a) not in ((11, 7), (16, 7))] + \
                [(11, 1, 6), (16, 1, 6)]
    for (k, rsz, asz) in deep:
        for via in (0, 1):
            obs.append(Ob("deep/%s/k=%d/res=%d/a=%d" % ("vec" if via == 0 else "big", k, rsz, asz), H, "h_vec",
                          {"K": k, "NN": 1, "RSZ": rsz, "ASZ": asz, "RSL": 2, "ASL": 1, "VIA": via}, LIBS, unwind=40, family="normalize, long dropped chains", timeout=900 if ctx.quick else 7200,
                          desc="as vec/: digits of T mod 2^(k*a_size) with many more input limbs than output limbs"))
    # strides and dispatch, in place, big and range variants on a reduced k set
    ks2 = [19] if ctx.quick else [1, 2, 19, 33, 61, 62]
    for k in ks2:
        for rsz in range(smax + 1):
            for asz in range(smax + 1):
                nn = 2
                for (rsl, asl, avx) in ((nn, nn, 1), (nn + 3, nn, 0)):
                    obs.append(Ob("vecs/k=%d/res=%d/a=%d/rsl=%d/asl=%d/avx=%d" % (k, rsz, asz, rsl, asl, avx), H, "h_vec",
                                  {"K": k, "NN": nn, "RSZ": rsz, "ASZ": asz, "RSL": rsl, "ASL": asl, "VIA": 0, "AVX": avx}, LIBS,
                                  unwind=40, family="vec_znx_normalize_base2k strides/dispatch"))
                obs.append(Ob("inplace/k=%d/res=%d/a=%d" % (k, rsz, asz), H, "h_vec",
                              {"K": k, "NN": nn, "RSZ": rsz, "ASZ": asz, "ASL": nn + 1, "VIA": 0, "INPLACE": None}, LIBS,
                              unwind=40, family="vec_znx_normalize_base2k in place (res==a)"))
                obs.append(Ob("big/k=%d/res=%d/a=%d" % (k, rsz, asz), H, "h_vec",
                              {"K": k, "NN": nn, "RSZ": rsz, "ASZ": asz, "RSL": nn + 1, "VIA": 1}, LIBS,
                              unwind=40, family="vec_znx_big_normalize_base2k"))
                obs.append(Ob("big-inplace/k=%d/res=%d/a=%d" % (k, rsz, asz), H, "h_vec",
                              {"K": k, "NN": nn, "RSZ": rsz, "ASZ": asz, "VIA": 1, "INPLACE": None}, LIBS,
                              unwind=40, family="vec_znx_big_normalize_base2k in place"))
        # range variant: all (begin,end,step) with end <= 4, step 1..3, begin <= end
        for rb in range(0, 5):
            for re_ in range(rb, 5):
                for rs in (1, 2, 3):
                    for rsz in ((0, 1, 2, 3) if not ctx.quick else (1, 3)):
                        obs.append(Ob("range/k=%d/b=%d/e=%d/s=%d/res=%d" % (k, rb, re_, rs, rsz), H, "h_vec",
                                      {"K": k, "NN": 2, "RSZ": rsz, "RSL": 3, "VIA": 2, "RB": rb, "RE": re_, "RS": rs, "BIGSZ": 4},
                                      LIBS, unwind=40, family="vec_znx_big_range_normalize_base2k"))
    return obs


def check(ctx, only=None, list_only=False):
    obs = obligations(ctx)
    if only:
        obs = [o for o in obs if only.search(o.name)]
    if list_only:
        for o in obs:
            print(o.name)
        return 0
    core.log("C05: %d obligations" % len(obs))
    res = core.run_all(ctx, obs)
    meta = {
        "functions_encoded": ["znx_normalize", "vec_znx_normalize_base2k(_ref)", "vec_znx_normalize_base2k_tmp_bytes(_ref)",
                              "fft64_vec_znx_big_normalize_base2k", "fft64_vec_znx_big_range_normalize_base2k",
                              "fill_virtual_table (real dispatch table)", "znx_zero_i64_ref"],
        "bounds": "k: every 1..62 for the primitive; vector level k in {1,2,19,32,61,62} (quick; variants at k=19) / all 62 (thorough); limb counts 0..3 (0..4 thorough) "
                  "in all orderings; N in {1,2}; strides N..N+3; range triples with xend<=4, step 1..3; all data values |a_i|<=2^62 symbolic",
        "outside": "a_size > 3 (4 thorough) except the listed long-chain shapes (a_size up to 8 at N=1); N > 2 (coefficients are processed independently); k symbolic in a single query",
        "assumptions": ["|in| <= 2^62 (documented)", "carry_in in [-2^(64-k), 2^(64-k)-1] for k>=2 (documented: at most 65-k bits); |carry_in| <= 2^62 for k=1",
                        "malloc never fails", "module table built by the real fill_virtual_table with CPU detection replaced by a flag"],
    }
    return core.finish(ctx, res, meta)
