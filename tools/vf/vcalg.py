"""vcalg: re-interpretation of a verification condition exported by `cbmc --smt2 [--fpa] --outfile`.

The exported file is the symbolic execution of the REAL code (pointers, structs, function
pointers and loops already resolved by CBMC's symex for the concrete shape of the harness): a
chain of define-funs over field-sensitive scalars.  This module reads it and evaluates the terms
of the harness outputs in one of three domains (DESIGN.md 2.4):

  RealDom  IEEE operations -> exact real polynomial over the input atoms (dyadic coefficients)
           + a rigorous per-monomial rounding radius (standard model |delta| <= 2^-53)
  UFDom    every operation uninterpreted, hash-consed: equal term ids => equal bits under every
           interpretation (used for "two executions give the same bits")
  IntDom   bit-vector operations -> integer polynomials over atoms with rigorous intervals,
           emitting explicit no-wrap / operand-width side conditions

It refuses (Unsupported) anything it cannot interpret soundly in the requested domain.
"""
import re
import sys
import threading
from fractions import Fraction

sys.setrecursionlimit(1000000)
threading.stack_size(512 * 1024 * 1024)


class Unsupported(Exception):
    pass


# ----------------------------------------------------------------------------- s-expression reader
TOKEN = re.compile(r"\|[^|]*\||\(|\)|;[^\n]*|[^\s()|;]+")


def parse_sexprs(text):
    """returns a list of top-level s-expressions (nested python lists / strings)"""
    stack = [[]]
    for m in TOKEN.finditer(text):
        t = m.group(0)
        c = t[0]
        if c == ";":
            continue
        if c == "(":
            stack.append([])
        elif c == ")":
            x = stack.pop()
            stack[-1].append(x)
        else:
            stack[-1].append(t)
    return stack[0]


class VC:
    def __init__(self, path):
        txt = open(path).read()
        self.defs = {}
        self.decls = {}
        self.asserts = []
        for e in parse_sexprs(txt):
            if not isinstance(e, list) or not e:
                continue
            h = e[0]
            if h == "define-fun":
                self.defs[e[1]] = e[4]
            elif h == "declare-fun":
                self.decls[e[1]] = e[3]
            elif h == "assert":
                self.asserts.append(e[1])
        # CBMC declares path guards as Bool symbols and constrains them with (assert (= guard expr)): single static assignment,
        # so the constraint is their definition
        for a in self.asserts:
            if isinstance(a, list) and len(a) == 3 and a[0] == "=" and isinstance(a[1], str) and a[1] in self.decls \
                    and self.decls[a[1]] == "Bool" and "guard" in a[1] and a[1] not in self.defs:
                self.defs[a[1]] = a[2]
        # solver-specific dialects (cbmc --z3 --outfile) print SSA definitions as declare-fun + (assert (= |sym| term))
        for a in self.asserts:
            if isinstance(a, list) and len(a) == 3 and a[0] == "=" and isinstance(a[1], str) and a[1].startswith("|") and a[1] in self.decls \
                    and a[1] not in self.defs and "#" in a[1]:
                self.defs[a[1]] = a[2]
        # float stored into an integer-typed object: CBMC introduces `bvfromfloat.k` with (assert (= ((_ to_fp e s) bvfromfloat.k) <float term>))
        self.fbits = {}
        for a in self.asserts:
            if isinstance(a, list) and len(a) == 3 and a[0] == "=" and isinstance(a[1], list) and len(a[1]) == 2 and isinstance(a[1][0], list) \
                    and a[1][0][:2] == ["_", "to_fp"] and isinstance(a[1][1], str) and a[1][1].startswith("bvfromfloat."):
                self.fbits[a[1][1]] = a[2]
        self._final = None

    def final_versions(self, base):
        """map index -> symbol name of the last SSA version of |base#k[[index]]|"""
        # CBMC prints field-sensitive array indices in upper-case hexadecimal: [[1B]] is element 27
        rx = re.compile(r"^\|" + re.escape(base) + r"#(\d+)\[\[([0-9A-F]+)\]\]\|$")
        best = {}
        for name in self.defs:
            m = rx.match(name)
            if m:
                k, i = int(m.group(1)), int(m.group(2), 16)
                if i not in best or k > best[i][0]:
                    best[i] = (k, name)
        return {i: v[1] for i, v in best.items()}

    def scalar_final(self, base):
        rx = re.compile(r"^\|" + re.escape(base) + r"#(\d+)\|$")
        best = None
        for name in self.defs:
            m = rx.match(name)
            if m and (best is None or int(m.group(1)) > best[0]):
                best = (int(m.group(1)), name)
        return best[1] if best else None


# ----------------------------------------------------------------------------- generic evaluator
def bv_literal(t):
    """'#b0101' / '#xff' -> (value, width) or None"""
    if isinstance(t, str):
        if t.startswith("#b"):
            return int(t[2:], 2), len(t) - 2
        if t.startswith("#x"):
            return int(t[2:], 16), 4 * (len(t) - 2)
    elif isinstance(t, list) and len(t) == 3 and t[0] == "_" and isinstance(t[1], str) and t[1].startswith("bv"):
        return int(t[1][2:]), int(t[2])
    return None


class Evaluator:
    """memoising term evaluator; `dom` supplies the interpretation"""

    def __init__(self, vc, dom, memo_ids=True):
        self.vc = vc
        self.dom = dom
        self.memo_sym = {}
        self.memo_id = {}
        self.memo_ids = memo_ids  # must be off when expressions are parsed and dropped on the fly (object ids get reused)
        self.env = [{}]

    def sym(self, name):
        for fr in reversed(self.env):
            if name in fr:
                return fr[name]
        if name in self.memo_sym:
            v = self.memo_sym[name]
            if isinstance(v, tuple) and v and v[0] == "unsupported":
                raise Unsupported(v[1])
            return v
        if name in self.vc.defs:
            v = self.ev(self.vc.defs[name])
        elif name in getattr(self.vc, "fbits", {}):
            inner = self.ev(self.vc.fbits[name])  # the bit pattern of that float value
            v = self.dom.fbits(inner) if hasattr(self.dom, "fbits") else ("fbits", inner)
        elif name in self.vc.decls:
            v = self.dom.atom(name, self.vc.decls[name])
        elif name in ("true", "false"):
            v = self.dom.boolconst(name == "true")
        elif name in ("roundNearestTiesToEven", "RNE"):
            v = ("rm", "RNE")
        elif name in ("roundTowardZero", "RTZ", "roundTowardPositive", "RTP", "roundTowardNegative", "RTN", "roundNearestTiesToAway", "RNA"):
            v = ("rm", name)
        else:
            lit = bv_literal(name)
            if lit is None:
                raise Unsupported("unknown symbol %s" % name)
            v = self.dom.bvconst(*lit)
        self.memo_sym[name] = v
        return v

    def ev(self, t):
        if isinstance(t, str):
            return self.sym(t)
        if not self.memo_ids:
            return self._ev(t)
        key = id(t)
        if len(self.env) == 1 and key in self.memo_id:
            return self.memo_id[key]
        v = self._ev(t)
        if len(self.env) == 1:
            self.memo_id[key] = v
        return v

    def _ev(self, t):
        h = t[0]
        if h == "let":
            fr = {}
            for (n, e) in t[1]:
                fr[n] = self.ev(e)
            self.env.append(fr)
            try:
                return self.ev(t[2])
            finally:
                self.env.pop()
        if h == "_":
            lit = bv_literal(t)
            if lit is not None:
                return self.dom.bvconst(*lit)
            if t[1] in ("+zero", "-zero", "+oo", "-oo", "NaN"):
                return self.dom.fpspecial(t[1])
            raise Unsupported("indexed identifier %r" % (t,))
        if h == "fp":
            s, e, m = (bv_literal(x) for x in t[1:4])
            return self.dom.fpconst(s[0], e[0], e[1], m[0], m[1])
        if isinstance(h, list):
            # ((_ extract i j) x), ((_ zero_extend k) x), ((_ to_fp e s) ...), ((as const T) v)
            if h[0] == "_":
                args = [self.ev(x) for x in t[1:]]
                return self.dom.indexed(h[1], [int(x) if re.fullmatch(r"\d+", x) else x for x in h[2:]], args)
            if h[0] == "as" and h[1] == "const":
                return self.dom.constarray(self.ev(t[1]))
            raise Unsupported("head %r" % (h,))
        args = [self.ev(x) for x in t[1:]]
        return self.dom.apply(h, args)


class _StreamVC:
    def __init__(self):
        self.defs = {}
        self.decls = {}


def stream_eval(path, dom, wanted_rx):
    """single forward pass over a (large) exported VC: every define-fun is evaluated as soon as it is read and its syntax is
    dropped (CBMC prints definitions in dependency order).  Returns {name: value} for names matching wanted_rx, and the count
    of definitions evaluated."""
    import gc
    gc.disable()  # millions of small long-lived objects: the cyclic collector only costs time here
    vc = _StreamVC()
    ev = Evaluator(vc, dom, memo_ids=False)
    out = {}
    n = 0
    buf = None
    with open(path) as f:
        for line in f:
            if buf is None:
                if not (line.startswith("(define-fun ") or line.startswith("(declare-fun ") or line.startswith("(assert (= |goto_symex::")):
                    continue
                buf = line
            else:
                buf += line
            if buf.count("(") > buf.count(")"):
                continue  # definition continues on the next line
            e = parse_sexprs(buf)[0]
            buf = None
            if e[0] == "declare-fun":
                vc.decls[e[1]] = e[3]
            elif e[0] == "define-fun":
                name = e[1]
                try:
                    v = ev.ev(e[4])
                except Unsupported as ex:
                    # definitions that are not on the path of a wanted output may be uninterpretable (pointers, structs);
                    # they only matter if something wanted refers to them
                    v = ("unsupported", str(ex))
                except (AttributeError, TypeError, KeyError, IndexError) as ex:
                    v = ("unsupported", "not interpretable in this domain: %r" % (ex,))
                ev.memo_sym[name] = v
                n += 1
                if wanted_rx.match(name):
                    out[name] = v
            elif e[0] == "assert":
                a = e[1]
                if isinstance(a, list) and len(a) == 3 and a[0] == "=" and isinstance(a[1], str) and a[1] in vc.decls and "guard" in a[1]:
                    try:
                        ev.memo_sym[a[1]] = ev.ev(a[2])
                    except Unsupported as ex:
                        ev.memo_sym[a[1]] = ("unsupported", str(ex))
    return out, n


# ----------------------------------------------------------------------------- dyadic numbers
def dy_norm(n, e):
    if n == 0:
        return (0, 0)
    tz = (n & -n).bit_length() - 1
    if tz:
        n >>= tz
        e += tz
    return (n, e)


def dy_add(a, b):
    (n1, e1), (n2, e2) = a, b
    if n1 == 0:
        return b
    if n2 == 0:
        return a
    if e1 < e2:
        return dy_norm(n1 + (n2 << (e2 - e1)), e1)
    return dy_norm((n1 << (e1 - e2)) + n2, e2)


def dy_mul(a, b):
    return dy_norm(a[0] * b[0], a[1] + b[1])


def dy_neg(a):
    return (-a[0], a[1])


def dy_float(a):
    n, e = a
    try:
        return float(Fraction(n) * (Fraction(2) ** e))
    except OverflowError:
        return float("inf")


def dy_frac(a):
    return Fraction(a[0]) * (Fraction(2) ** a[1])


def dy_from_fp(sign, ebits, ew, mbits, mw):
    bias = (1 << (ew - 1)) - 1
    if ebits == (1 << ew) - 1:
        raise Unsupported("inf/nan constant on the arithmetic path")
    if ebits == 0:
        n, e = mbits, 1 - bias - mw
    else:
        n, e = mbits | (1 << mw), ebits - bias - mw
    return dy_norm(-n if sign else n, e)


U = 2.0 ** -53
UP = 1.0 + 2.0 ** -48  # outward fudge for the float arithmetic on radii themselves


# ----------------------------------------------------------------------------- Real domain
class RPoly:
    """sum over monomials (sorted tuples of atom ids) of coefficient (dyadic) with radius (float)"""
    __slots__ = ("t",)

    def __init__(self, t=None):
        self.t = t if t is not None else {}

    @staticmethod
    def const(d):
        return RPoly({(): (d, 0.0)} if d[0] else {})

    @staticmethod
    def atom(i):
        return RPoly({(i,): ((1, 0), 0.0)})


class RealDom:
    """values: RPoly for floats; ('bv', value, width) for concrete bit-vectors; ('rm', ..)"""

    def __init__(self, input_filter=None):
        self.atoms = {}  # name -> id
        self.names = []
        self.nops = 0
        self.input_filter = input_filter

    # -- atoms / constants
    def atom(self, name, sort):
        if isinstance(sort, list) and sort[:2] == ["_", "FloatingPoint"]:
            if name not in self.atoms:
                self.atoms[name] = len(self.names)
                self.names.append(name)
            return RPoly.atom(self.atoms[name])
        raise Unsupported("non-float nondeterministic symbol %s : %r on the arithmetic path" % (name, sort))

    def bvconst(self, v, w):
        return ("bv", v, w)

    def boolconst(self, b):
        return ("bool", b)

    def fpconst(self, s, e, ew, m, mw):
        return RPoly.const(dy_from_fp(s, e, ew, m, mw))

    def fpspecial(self, k):
        if k in ("+zero", "-zero"):
            return RPoly({})
        raise Unsupported("special float %s" % k)

    def constarray(self, v):
        return ("arr", {}, v)

    def indexed(self, op, idx, args):
        if isinstance(args[0], tuple) and args[0] and args[0][0] == "fbits":
            if op == "to_fp" and len(args) == 1:
                return args[0][1]  # reinterpretation of the stored bits as the float they came from
            if op == "extract" and idx == [63, 0]:
                return args[0]
            if op == "extract":
                return ("fpart", args[0][1], idx[0], idx[1])  # a slice of the stored bits (byte-wise copies); only re-assembly is supported
            raise Unsupported("bit-level operation %s on a stored float" % op)
        if isinstance(args[0], tuple) and args[0] and args[0][0] == "fpart":
            if op == "extract":
                _, x, hi, lo = args[0]
                return ("fpart", x, lo + idx[0], lo + idx[1])
            raise Unsupported("bit-level operation %s on a slice of a stored float" % op)
        if op == "extract" and args[0][0] == "bv":
            hi, lo = idx
            return ("bv", (args[0][1] >> lo) & ((1 << (hi - lo + 1)) - 1), hi - lo + 1)
        if op in ("zero_extend",) and args[0][0] == "bv":
            return ("bv", args[0][1], args[0][2] + idx[0])
        if op == "sign_extend" and args[0][0] == "bv":
            v, w = args[0][1], args[0][2]
            if v >> (w - 1):
                v |= ((1 << idx[0]) - 1) << w
            return ("bv", v, w + idx[0])
        raise Unsupported("indexed op %s on %r in the real domain" % (op, [type(a) for a in args]))

    # -- float operations
    def _round(self, exact, err):
        """exact: dict mono -> dyadic ; err: dict mono -> float (pre-rounding accumulated error).
        applies one rounding: r' = err*(1+u) + u*|c|"""
        out = {}
        for m, c in exact.items():
            e = err.get(m, 0.0)
            r = (e * (1.0 + U) + U * abs(dy_float(c))) * UP
            if c[0] != 0 or r != 0.0:
                out[m] = (c, r)
        for m, e in err.items():
            if m not in exact and e != 0.0:
                out[m] = ((0, 0), e * (1.0 + U) * UP)
        return RPoly(out)

    def _addsub(self, a, b, sign):
        ex, er = {}, {}
        for m, (c, r) in a.t.items():
            ex[m] = c
            er[m] = r
        for m, (c, r) in b.t.items():
            cc = c if sign > 0 else dy_neg(c)
            ex[m] = dy_add(ex[m], cc) if m in ex else cc
            er[m] = er.get(m, 0.0) + r
        return ex, er

    def _mul(self, a, b):
        ex, er = {}, {}
        for m1, (c1, r1) in a.t.items():
            f1 = abs(dy_float(c1))
            for m2, (c2, r2) in b.t.items():
                m = tuple(sorted(m1 + m2)) if (m1 and m2) else (m1 or m2)
                c = dy_mul(c1, c2)
                ex[m] = dy_add(ex[m], c) if m in ex else c
                f2 = abs(dy_float(c2))
                e = f1 * r2 + f2 * r1 + r1 * r2
                if e != 0.0:
                    er[m] = er.get(m, 0.0) + e * UP
        return ex, er

    def apply(self, op, args):
        self.nops += 1
        if op in ("fp.add", "fp.sub"):
            self._rm(args[0])
            ex, er = self._addsub(self._f(args[1]), self._f(args[2]), 1 if op == "fp.add" else -1)
            return self._round(ex, er)
        if op == "fp.mul":
            self._rm(args[0])
            ex, er = self._mul(self._f(args[1]), self._f(args[2]))
            return self._round(ex, er)
        if op == "fp.fma":
            self._rm(args[0])
            ex, er = self._mul(self._f(args[1]), self._f(args[2]))
            for m, (c, r) in self._f(args[3]).t.items():
                ex[m] = dy_add(ex[m], c) if m in ex else c
                er[m] = er.get(m, 0.0) + r
            return self._round(ex, er)
        if op == "fp.neg":
            return RPoly({m: (dy_neg(c), r) for m, (c, r) in self._f(args[0]).t.items()})
        if op == "select":
            return self._select(args[0], args[1])
        if op == "store":
            if args[0][0] != "arr" or args[1][0] != "bv":
                raise Unsupported("store with symbolic index")
            d = dict(args[0][1])
            d[args[1][1]] = args[2]
            return ("arr", d, args[0][2])
        if op == "ite":
            if args[0][0] == "bool":
                return args[1] if args[0][1] else args[2]
            raise Unsupported("data-dependent ite on the arithmetic path")
        if op in ("=",) and all(isinstance(a, tuple) and a[0] == "bv" for a in args):
            return ("bool", args[0][1] == args[1][1])
        if op == "not" and args[0][0] == "bool":
            return ("bool", not args[0][1])
        if op == "and" and all(a[0] == "bool" for a in args):
            return ("bool", all(a[1] for a in args))
        if op == "or" and all(a[0] == "bool" for a in args):
            return ("bool", any(a[1] for a in args))
        if op in BVOPS and all(isinstance(a, tuple) and a[0] == "bv" for a in args):
            return bv_concrete(op, args)
        if op == "concat" and all(isinstance(a, tuple) and a and a[0] == "fpart" for a in args):
            # byte-wise copy of a stored float, re-assembled most significant part first
            x = args[0][1]
            pos = 63
            for a in args:
                if a[1] is not x or a[2] != pos:
                    raise Unsupported("concat of float slices that do not re-assemble one stored float")
                pos = a[3] - 1
            if pos != -1:
                raise Unsupported("partial re-assembly of a stored float")
            return ("fbits", x)
        raise Unsupported("operation %s in the real domain" % op)

    def _select(self, arr, idx):
        if isinstance(arr, tuple) and arr[0] == "arr" and isinstance(idx, tuple) and idx[0] == "bv":
            if idx[1] in arr[1]:
                return arr[1][idx[1]]
            if arr[2] is not None:
                return arr[2]
        raise Unsupported("array select that is not constant-index on a known array")

    def _rm(self, rm):
        if rm != ("rm", "RNE"):
            raise Unsupported("rounding mode %r" % (rm,))

    def _f(self, x):
        if isinstance(x, RPoly):
            return x
        raise Unsupported("expected a float value, got %r" % (x,))


BVOPS = ("bvadd", "bvsub", "bvmul", "bvand", "bvor", "bvxor", "bvshl", "bvlshr", "bvneg", "bvnot", "concat", "bvudiv", "bvurem")


def bv_concrete(op, args):
    w = args[0][2]
    mask = (1 << w) - 1
    v = [a[1] for a in args]
    if op == "bvadd":
        r = sum(v) & mask
    elif op == "bvsub":
        r = (v[0] - v[1]) & mask
    elif op == "bvmul":
        r = 1
        for x in v:
            r = (r * x) & mask
    elif op == "bvand":
        r = v[0]
        for x in v[1:]:
            r &= x
    elif op == "bvor":
        r = v[0]
        for x in v[1:]:
            r |= x
    elif op == "bvxor":
        r = v[0]
        for x in v[1:]:
            r ^= x
    elif op == "bvshl":
        r = (v[0] << v[1]) & mask if v[1] < w else 0
    elif op == "bvlshr":
        r = v[0] >> v[1] if v[1] < w else 0
    elif op == "bvneg":
        r = (-v[0]) & mask
    elif op == "bvnot":
        r = (~v[0]) & mask
    elif op == "bvudiv":
        r = v[0] // v[1] if v[1] else mask
    elif op == "bvurem":
        r = v[0] % v[1] if v[1] else v[0]
    elif op == "concat":
        r, w = 0, 0
        for a in args:
            r = (r << a[2]) | a[1]
            w += a[2]
        return ("bv", r, w)
    else:
        raise Unsupported(op)
    return ("bv", r, w)


# ----------------------------------------------------------------------------- UF domain
class UFDom:
    """hash-consed uninterpreted terms.  Values are ints (node ids)."""

    def __init__(self):
        self.table = {}
        self.nodes = []

    def mk(self, *key):
        i = self.table.get(key)
        if i is None:
            i = len(self.nodes)
            self.table[key] = i
            self.nodes.append(key)
        return i

    def atom(self, name, sort):
        return self.mk("atom", name)

    def bvconst(self, v, w):
        return self.mk("bv", v, w)

    def boolconst(self, b):
        return self.mk("bool", b)

    def fpconst(self, s, e, ew, m, mw):
        return self.mk("fp", s, e, ew, m, mw)

    def fpspecial(self, k):
        return self.mk("fpspecial", k)

    def constarray(self, v):
        return self.mk("constarray", v)

    def _ids(self, args):
        return [self.mk("rm", a[1]) if isinstance(a, tuple) else a for a in args]

    def fbits(self, x):
        return self.mk("fbits", x)

    def indexed(self, op, idx, args):
        args = self._ids(args)
        if len(args) == 1 and self.nodes[args[0]][0] == "fbits":
            if op == "to_fp":
                return self.nodes[args[0]][1]  # bits of a float read back as that float
            if op == "extract" and list(idx) == [63, 0]:
                return args[0]
        return self.mk("ix", op, tuple(idx), tuple(args))

    def apply(self, op, args):
        args = self._ids(args)
        # resolve selects over stores with concrete, distinct indices so that memory traffic does not
        # hide the data flow; everything else stays uninterpreted
        if op == "select":
            arr, idx = args
            k = self.nodes[arr]
            ik = self.nodes[idx]
            while k[0] == "app" and k[1] == "store" and ik[0] == "bv":
                sarr, sidx, sval = k[2]
                sk = self.nodes[sidx]
                if sk[0] != "bv":
                    break
                if sk[1] == ik[1]:
                    return sval
                arr = sarr
                k = self.nodes[arr]
            return self.mk("app", "select", (arr, idx))
        if op == "ite":
            c = self.nodes[args[0]]
            if c[0] == "bool":
                return args[1] if c[1] else args[2]
        if op == "=" and len(args) == 2:
            a, b = self.nodes[args[0]], self.nodes[args[1]]
            if a[0] == "bv" and b[0] == "bv":
                return self.mk("bool", a[1] == b[1])
        return self.mk("app", op, tuple(args))


# ----------------------------------------------------------------------------- Int domain
class IPoly:
    """integer polynomial over atoms + rigorous interval [lo,hi] of its (mathematical) value + bit width.
    sg: the bits are the two's complement of the value (it may be negative); otherwise the value is the unsigned reading."""
    __slots__ = ("t", "lo", "hi", "w", "sg")

    def __init__(self, t, lo, hi, w, sg=False):
        self.t, self.lo, self.hi, self.w, self.sg = t, lo, hi, w, sg


def ip_add(a, b, sign=1):
    t = dict(a)
    for m, c in b.items():
        v = t.get(m, 0) + sign * c
        if v:
            t[m] = v
        else:
            t.pop(m, None)
    return t


def ip_mul(a, b):
    t = {}
    for m1, c1 in a.items():
        for m2, c2 in b.items():
            m = tuple(sorted(m1 + m2)) if (m1 and m2) else (m1 or m2)
            v = t.get(m, 0) + c1 * c2
            if v:
                t[m] = v
            else:
                t.pop(m, None)
    return t


def ip_scale(a, k):
    return {m: c * k for m, c in a.items()} if k else {}


class IntDom:
    """bit-vector terms as mathematical integers.

    Every bvadd/bvmul/bvshl is translated WITHOUT reduction and records the obligation that its
    interval stays below 2^width; a subtraction records a >= b.  `x & (2^k-1)` and `x >> k`
    introduce the pair lo = x - 2^k*hi, hi = floor(x/2^k) (hi is a fresh atom with its range).
    Obligations whose interval proof fails are kept in self.open (to be sent to a solver or
    reported)."""

    def __init__(self, atom_ranges=None, default_width_range=True):
        self.atoms = {}
        self.names = []
        self.ranges = {}  # atom id -> (lo, hi)
        self.defs = {}  # atom id -> ("div", poly, k) provenance of hi atoms
        self.obl_ok = 0
        self.open = []
        self.atom_ranges = atom_ranges or {}
        self.hi_cache = {}
        self.nops = 0
        self.allow_signed = False  # set by analyses of code that computes with signed integers (conversions)
        self.array_atoms = {}
        self.max_terms = None
        self.name_range = lambda name, width: (0, (1 << width) - 1)  # analyses override: range of a scalar nondeterministic symbol by name
        self.array_range = lambda name, idx, width: (0, (1 << width) - 1)  # analyses override: range of element idx of array name

    def new_atom(self, name, lo, hi):
        i = len(self.names)
        self.atoms[name] = i
        self.names.append(name)
        self.ranges[i] = (lo, hi)
        return i

    def atom(self, name, sort):
        if isinstance(sort, list) and sort[:2] == ["_", "BitVec"]:
            w = int(sort[2])
            if name not in self.atoms:
                lo, hi = self.atom_ranges.get(name) or self.name_range(name, w)
                self.new_atom(name, lo, hi)
            i = self.atoms[name]
            lo, hi = self.ranges[i]
            return IPoly({(i,): 1}, lo, hi, w)
        if sort == "Bool":
            raise Unsupported("nondeterministic Bool %s" % name)
        if isinstance(sort, list) and sort[0] == "Array" and isinstance(sort[2], list) and sort[2][:2] == ["_", "BitVec"]:
            return ("arrsym", name, int(sort[2][2]))  # an uninitialised (nondeterministic) array: elements become atoms on first read
        raise Unsupported("nondeterministic symbol %s of sort %r" % (name, sort))

    def bvconst(self, v, w):
        return IPoly({(): v} if v else {}, v, v, w)

    def boolconst(self, b):
        return ("bool", b)

    def fpconst(self, *a):
        raise Unsupported("float constant in the integer domain")

    def fpspecial(self, k):
        raise Unsupported("float in the integer domain")

    def constarray(self, v):
        return ("arr", {}, v)

    def _oblig(self, ok, desc):
        if ok:
            self.obl_ok += 1
        else:
            self.open.append(desc)

    def _const(self, x):
        return x.lo if (isinstance(x, IPoly) and x.lo == x.hi and set(x.t) <= {()}) else None

    def poly_interval(self, t):
        """rigorous interval of an integer polynomial from the (non-negative) atom ranges"""
        lo = hi = 0
        for m, c in t.items():
            plo = phi = 1
            for a in m:
                alo, ahi = self.ranges[a]
                plo *= alo
                phi *= ahi
            if c >= 0:
                lo += c * plo
                hi += c * phi
            else:
                lo += c * phi
                hi += c * plo
        return lo, hi

    def split_exact(self, x, k):
        """if x == 2^k*A + B with 0 <= B < 2^k provable from the atom ranges, return (A, B) as IPolys"""
        A, B = {}, {}
        step = 1 << k
        for m, c in x.t.items():
            if c % step == 0:
                A[m] = c // step
            else:
                B[m] = c
        if not A:
            return None
        blo, bhi = self.poly_interval(B)
        if blo < 0 or bhi >= step:
            return None
        alo, ahi = self.poly_interval(A)
        alo, ahi = max(alo, x.lo >> k), min(ahi, x.hi >> k)
        return IPoly(A, alo, ahi, x.w), IPoly(B, max(blo, 0), bhi, x.w)

    def _hi(self, x, k):
        """floor(x / 2^k) as an atom (cached per (polynomial, k))"""
        if 0 <= x.lo and x.hi < (1 << k):
            return None, IPoly({}, 0, 0, x.w)
        if len(x.t) == 1:
            # floor(floor(P / 2^k0) / 2^k) == floor(P / 2^(k0+k)): shifts of a shifted value are shifts of the original (byte-wise copies
            # of a word then re-assemble to exactly that word)
            (m, c), = x.t.items()
            if c == 1 and len(m) == 1 and m[0] in self.defs and self.defs[m[0]][0] == "div2k":
                _, base, k0 = self.defs[m[0]]
                blo, bhi = self.poly_interval(base)
                return self._hi(IPoly(dict(base), blo, bhi, x.w), k0 + k)
        sp = self.split_exact(x, k) if x.lo >= 0 else None
        if sp is not None:
            return None, sp[0]
        key = (tuple(sorted(x.t.items())), k)
        if key in self.hi_cache:
            i = self.hi_cache[key]
        else:
            i = self.new_atom("hi%d_%d" % (k, len(self.names)), x.lo >> k, x.hi >> k)
            self.defs[i] = ("div2k", dict(x.t), k)
            self.hi_cache[key] = i
        lo, hi = self.ranges[i]
        return i, IPoly({(i,): 1}, lo, hi, x.w)

    def indexed(self, op, idx, args):
        x = args[0]
        if not isinstance(x, IPoly):
            raise Unsupported("indexed %s on non-bv" % op)
        if op == "zero_extend":
            x = self._unsigned(x, "zero_extend")
            return IPoly(x.t, x.lo, x.hi, x.w + idx[0])
        if op == "extract":
            hi, lo = idx
            c = self._const(x)
            if c is not None:
                v = (c >> lo) & ((1 << (hi - lo + 1)) - 1)
                return self.bvconst(v, hi - lo + 1)
            if lo == 0:
                if x.lo >= 0 and x.hi < (1 << (hi + 1)):
                    return IPoly(x.t, x.lo, x.hi, hi + 1)
                if x.lo < 0:
                    # truncation of a signed value: bits = value mod 2^(hi+1); kept signed when it fits the narrower signed range
                    if x.lo >= -(1 << hi) and x.hi < (1 << hi):
                        return IPoly(x.t, x.lo, x.hi, hi + 1, True)
                    x = self._unsigned(x, "extract")
                return self._low(x, hi + 1, hi + 1)
            _, h = self._hi(x, lo)
            if hi == x.w - 1:
                return IPoly(h.t, h.lo, h.hi, hi - lo + 1)
            # middle bits: floor(x / 2^lo) mod 2^(hi-lo+1)
            return self._low(IPoly(h.t, h.lo, h.hi, x.w), hi - lo + 1, hi - lo + 1)
        if op == "sign_extend":
            sx = self._signed(x, "sign_extend")
            return IPoly(sx.t, sx.lo, sx.hi, x.w + idx[0], sx.lo < 0)
        raise Unsupported("indexed op %s" % op)

    def _low(self, x, k, w):
        """x mod 2^k"""
        if x.hi < (1 << k):
            return IPoly(x.t, x.lo, x.hi, w)
        sp = self.split_exact(x, k)
        if sp is not None:
            return IPoly(sp[1].t, sp[1].lo, sp[1].hi, w)
        i, h = self._hi(x, k)
        t = ip_add(x.t, ip_scale(h.t, 1 << k), -1)
        return IPoly(t, 0, (1 << k) - 1, w)

    # ---- signed views -----------------------------------------------------------------------------
    def _unsigned(self, x, what):
        """x as an unsigned quantity (needed by shifts, masks, unsigned remainder/comparison)"""
        if x.lo >= 0:
            return x
        if x.sg and x.hi < 0:
            return IPoly(ip_add(x.t, {(): 1 << x.w}), x.lo + (1 << x.w), x.hi + (1 << x.w), x.w)
        raise Unsupported("%s of a value whose sign is not determined (interval [%d,%d])" % (what, x.lo, x.hi))

    def _signed(self, x, what):
        """mathematical value of the two's complement reading of x"""
        half = 1 << (x.w - 1)
        if x.sg or x.hi < half:
            if x.lo < -half or x.hi >= half:
                raise Unsupported("%s: value outside the signed range" % what)
            return x
        if x.lo >= half:
            return IPoly(ip_add(x.t, {(): -(1 << x.w)}), x.lo - (1 << x.w), x.hi - (1 << x.w), x.w, True)
        raise Unsupported("%s of a value whose sign bit is not determined (interval [%d,%d]); split the harness input by sign" % (what, x.lo, x.hi))

    def _opaque_bitop(self, op, a, b):
        """bit-wise combination of two symbolic words: not a polynomial in the operands.  It becomes a fresh atom with a rigorous range (and <= both,
        or / xor < 2^bits) - range obligations stay sound; any congruence claim that depends on it fails (no identity can mention the atom), which is
        the right verdict for code that branches or selects on such a value.  The unchanged library has no such operation on the analysed paths."""
        if not (isinstance(a, IPoly) and isinstance(b, IPoly)) or a.lo < 0 or b.lo < 0:
            raise Unsupported("%s of values that are not non-negative words" % op)
        if op == "bvand":
            hi = min(a.hi, b.hi)
        else:
            hi = (1 << max(a.hi.bit_length(), b.hi.bit_length())) - 1
        i = self.new_atom("%s_%d" % (op, len(self.names)), 0, hi)
        self.defs[i] = ("opaque", {}, 0)
        return IPoly({(i,): 1}, 0, hi, a.w)

    def _fresh_switch(self):
        i = self.new_atom("sw_%d" % len(self.names), 0, 1)
        self.defs[i] = ("switch", {}, 0)
        return i

    def _cmp(self, kind, a, b):
        """comparison a ? b as ('bool', v) when decided by the intervals, else a symbolic condition"""
        if kind.startswith("bvs"):
            a, b = self._signed(a, kind), self._signed(b, kind)
        else:
            a, b = self._unsigned(a, kind), self._unsigned(b, kind)
        rel = kind[3:]
        tests = {"lt": (a.hi < b.lo, a.lo >= b.hi), "le": (a.hi <= b.lo, a.lo > b.hi), "gt": (a.lo > b.hi, a.hi <= b.lo), "ge": (a.lo >= b.hi, a.hi < b.lo)}
        yes, no = tests[rel]
        if yes:
            return ("bool", True)
        if no:
            return ("bool", False)
        return ("cmp", rel, a, b)

    def _ite(self, c, p, r):
        """c symbolic: value r + s*(p-r) with a fresh s in {0,1}; interval = hull of the two branches, each refined by the
        branch condition when the branch value is (compared term + constant)"""
        if not (isinstance(p, IPoly) and isinstance(r, IPoly)):
            raise Unsupported("ite on non-integer values")
        plo, phi, rlo, rhi = p.lo, p.hi, r.lo, r.hi
        if c[0] == "cmp":
            rel, a, b = c[1], c[2], c[3]
            cb = self._const(b)
            if cb is not None:
                tr = {"lt": (a.lo, min(a.hi, cb - 1)), "le": (a.lo, min(a.hi, cb)), "gt": (max(a.lo, cb + 1), a.hi), "ge": (max(a.lo, cb), a.hi)}[rel]
                fl = {"lt": (max(a.lo, cb), a.hi), "le": (max(a.lo, cb + 1), a.hi), "gt": (a.lo, min(a.hi, cb)), "ge": (a.lo, min(a.hi, cb - 1))}[rel]
                for (v, rng, which) in ((p, tr, "p"), (r, fl, "r")):
                    d = ip_add(v.t, a.t, -1)
                    if set(d) <= {()}:
                        k = d.get((), 0)
                        if which == "p":
                            plo, phi = max(plo, rng[0] + k), min(phi, rng[1] + k)
                        else:
                            rlo, rhi = max(rlo, rng[0] + k), min(rhi, rng[1] + k)
            s_atom = self._fresh_switch()
        elif c[0] == "nz":
            # (poly != 0) where poly = k*h, h an atom with range within [0,1] or [-1,0]: the switch IS that atom
            poly = c[1]
            s_atom = None
            if len(poly) == 1:
                (m, k), = poly.items()
                if len(m) == 1 and k != 0:
                    lo, hi = self.ranges[m[0]]
                    if (lo, hi) in ((0, 1), (0, 0), (1, 1)):
                        sw = {m: 1}
                    elif (lo, hi) in ((-1, 0), (-1, -1)):
                        sw = {m: -1}
                    else:
                        sw = None
                    if sw is not None:
                        diff = ip_add(p.t, r.t, -1)
                        t = ip_add(r.t, ip_mul(sw, diff))
                        return IPoly(t, min(plo, rlo), max(phi, rhi), p.w, p.sg or r.sg or min(plo, rlo) < 0)
            s_atom = self._fresh_switch()
            if c[2]:  # negated: condition is (poly == 0)
                p, r, plo, phi, rlo, rhi = r, p, rlo, rhi, plo, phi
        else:
            raise Unsupported("ite condition %r" % (c[0],))
        diff = ip_add(p.t, r.t, -1)
        t = ip_add(r.t, ip_mul({(s_atom,): 1}, diff))
        lo, hi = min(plo, rlo), max(phi, rhi)
        return IPoly(t, lo, hi, p.w, p.sg or r.sg or lo < 0)

    def apply(self, op, args):
        self.nops += 1
        if op == "bvadd":
            t, lo, hi = {}, 0, 0
            w = args[0].w
            if self.allow_signed:
                # CBMC prints `a - c` as `a + (2^w - c)`: in code declared to compute with signed integers a constant addend with the
                # top bit set is the negative number it denotes in two's complement
                args = [IPoly({(): self._const(a) - (1 << w)}, self._const(a) - (1 << w), self._const(a) - (1 << w), w, True)
                        if (self._const(a) is not None and self._const(a) >= (1 << (w - 1))) else a for a in args]
            for a in args:
                t = ip_add(t, a.t)
                lo += a.lo
                hi += a.hi
            if self.allow_signed:
                self._oblig(hi < (1 << w) and lo >= -(1 << (w - 1)), "bvadd may wrap 2^%d: interval [%d,%d]" % (w, lo, hi))
            else:
                self._oblig(hi < (1 << w) and lo >= 0, "lazy add/subtract may wrap or borrow in %d bits: interval [%d,%d]" % (w, lo, hi))
            if self.max_terms is not None and len(t) > self.max_terms:
                # interval-only mode for very long accumulations: the exact polynomial is forgotten (replaced by an opaque atom with the
                # same rigorous interval); range obligations stay sound, congruence claims are not made from such runs
                i = self.new_atom("opaque_%d" % len(self.names), lo, hi)
                self.defs[i] = ("opaque", {}, 0)
                t = {(i,): 1}
            return IPoly(t, lo, hi, w, lo < 0)
        if op == "bvsub":
            a, b = args
            lo, hi = a.lo - b.hi, a.hi - b.lo
            if lo >= 0 and not self.allow_signed:
                self._oblig(True, "")
                return IPoly(ip_add(a.t, b.t, -1), lo, hi, a.w)
            if not self.allow_signed:
                self._oblig(False, "bvsub may borrow: min(a)=%d < max(b)=%d" % (a.lo, b.hi))
                return IPoly(ip_add(a.t, b.t, -1), lo, hi, a.w)
            # signed reading permitted (harness declares it): the difference must stay inside the signed range
            self._oblig(lo >= -(1 << (a.w - 1)) and hi < (1 << a.w), "bvsub leaves the %d-bit range: [%d,%d]" % (a.w, lo, hi))
            return IPoly(ip_add(a.t, b.t, -1), lo, hi, a.w, lo < 0)
        if op == "bvneg":
            # CBMC prints a - b as a + (-b): the negated addend is kept as the negative integer -b; the enclosing bvadd then carries
            # the "no borrow" obligation (result >= 0) in unsigned code
            a = args[0]
            return IPoly(ip_scale(a.t, -1), -a.hi, -a.lo, a.w, True)
        if op == "bvmul":
            a = args[0]
            for b in args[1:]:
                cands = (a.lo * b.lo, a.lo * b.hi, a.hi * b.lo, a.hi * b.hi)
                lo, hi = min(cands), max(cands)
                self._oblig(hi < (1 << a.w) and lo >= -(1 << (a.w - 1)), "bvmul may wrap 2^%d: interval [%d,%d]" % (a.w, lo, hi))
                a = IPoly(ip_mul(a.t, b.t), lo, hi, a.w, lo < 0)
            return a
        if op == "bvand":
            a, b = args
            if isinstance(a, IPoly) and isinstance(b, IPoly) and a.t == b.t and a.w == b.w:
                return a  # x & x (e.g. _mm256_testz_si256(x, x))
            for x, y in ((a, b), (b, a)):
                c = self._const(y)
                if c is not None and c & (c + 1) == 0:  # mask 2^k-1
                    return self._low(self._unsigned(x, "bvand"), c.bit_length(), x.w)
                if c is not None and c > 0:
                    sh = (c & -c).bit_length() - 1
                    body = c >> sh
                    if body & (body + 1) == 0:  # contiguous run of ones starting at bit sh: 2^sh * (floor(x/2^sh) mod 2^nb)
                        xu = self._unsigned(x, "bvand")
                        _, h = self._hi(xu, sh)
                        part = self._low(IPoly(h.t, h.lo, h.hi, x.w), body.bit_length(), x.w)
                        return IPoly(ip_scale(part.t, 1 << sh), part.lo << sh, part.hi << sh, x.w)
            return self._opaque_bitop("bvand", a, b)
        if op == "bvlshr":
            a, b = args
            a = self._unsigned(a, "bvlshr")
            k = self._const(b)
            if k is None:
                raise Unsupported("shift by symbolic amount")
            if k >= a.w or a.hi < (1 << k):
                return self.bvconst(0, a.w)
            if k == 0:
                return a
            _, h = self._hi(a, k)
            return IPoly(h.t, h.lo, h.hi, a.w)
        if op == "bvshl":
            a, b = args
            k = self._const(b)
            if k is None:
                raise Unsupported("shift by symbolic amount")
            hi = a.hi << k
            self._oblig(hi < (1 << a.w), "bvshl shifts bits out of 2^%d: upper bound %d" % (a.w, hi))
            return IPoly(ip_scale(a.t, 1 << k), a.lo << k, hi, a.w)
        if op == "bvsrem":
            a, b = args
            q = self._const(b)
            if not q or q < 0:
                raise Unsupported("bvsrem by symbolic / non-positive divisor")
            A = self._signed(a, "bvsrem")
            if A.lo >= 0:
                return self.apply("bvurem", [IPoly(A.t, A.lo, A.hi, A.w), b])
            if A.hi <= 0:
                N = IPoly(ip_scale(A.t, -1), -A.hi, -A.lo, A.w)
                r = self.apply("bvurem", [N, b])
                return IPoly(ip_scale(r.t, -1), -r.hi, -r.lo, A.w, True)
            raise Unsupported("bvsrem of a value of undetermined sign; split the harness input by sign")
        if op in ("bvslt", "bvsle", "bvsgt", "bvsge", "bvult", "bvule", "bvugt", "bvuge"):
            return self._cmp(op, args[0], args[1])
        if op == "bvurem":
            a, b = args
            a = self._unsigned(a, "bvurem")
            q = self._const(b)
            if not q:
                raise Unsupported("bvurem by symbolic or zero divisor")
            if a.hi < q:
                return a
            key = (tuple(sorted(a.t.items())), "div", q)
            if key in self.hi_cache:
                i = self.hi_cache[key]
            else:
                i = self.new_atom("div%d_%d" % (q, len(self.names)), a.lo // q, a.hi // q)
                self.defs[i] = ("div", dict(a.t), q)
                self.hi_cache[key] = i
            return IPoly(ip_add(a.t, {(i,): q}, -1), 0, q - 1, a.w)
        if op == "bvudiv":
            a, b = args
            q = self._const(b)
            if not q:
                raise Unsupported("bvudiv by symbolic or zero divisor")
            key = (tuple(sorted(a.t.items())), "div", q)
            if key in self.hi_cache:
                i = self.hi_cache[key]
            else:
                i = self.new_atom("div%d_%d" % (q, len(self.names)), a.lo // q, a.hi // q)
                self.defs[i] = ("div", dict(a.t), q)
                self.hi_cache[key] = i
            lo, hi = self.ranges[i]
            return IPoly({(i,): 1}, lo, hi, a.w)
        if op == "concat":
            # zero-extension written as concat of a zero constant
            if len(args) == 2 and self._const(args[0]) == 0:
                x = args[1]
                return IPoly(x.t, x.lo, x.hi, args[0].w + x.w)
            cs = [self._const(a) for a in args]
            if all(c is not None for c in cs):
                r, w = 0, 0
                for a, c in zip(args, cs):
                    r = (r << a.w) | c
                    w += a.w
                return self.bvconst(r, w)
            # general concat: value = sum part_i * 2^(bits below it), exact (no reduction needed, parts are within width)
            t, lo, hi, sh = {}, 0, 0, 0
            for a in reversed(args):
                t = ip_add(t, ip_scale(a.t, 1 << sh))
                lo += a.lo << sh
                hi += a.hi << sh
                sh += a.w
            return IPoly(t, lo, hi, sh)
        if op == "select":
            arr, idx = args
            c = self._const(idx) if isinstance(idx, IPoly) else None
            if isinstance(arr, tuple) and arr[0] == "arrsym" and c is not None:
                nm = "%s[%d]" % (arr[1], c)
                if nm not in self.atoms:
                    lo, hi = self.array_range(arr[1], c, arr[2])
                    self.new_atom(nm, lo, hi)
                    self.array_atoms[(arr[1], c)] = self.atoms[nm]
                i = self.atoms[nm]
                lo, hi = self.ranges[i]
                return IPoly({(i,): 1}, lo, hi, arr[2])
            if isinstance(arr, tuple) and arr[0] == "arr" and c is not None:
                if c in arr[1]:
                    return arr[1][c]
                if arr[2] is not None:
                    return arr[2]
            raise Unsupported("array select that is not constant-index on a known array")
        if op == "store":
            arr, idx, val = args
            c = self._const(idx) if isinstance(idx, IPoly) else None
            if isinstance(arr, tuple) and arr[0] == "arr" and c is not None:
                d = dict(arr[1])
                d[c] = val
                return ("arr", d, arr[2])
            raise Unsupported("store with symbolic index")
        if op == "ite":
            if isinstance(args[0], tuple) and args[0][0] == "bool":
                return args[1] if args[0][1] else args[2]
            if isinstance(args[0], tuple) and args[0][0] in ("cmp", "nz"):
                return self._ite(args[0], args[1], args[2])
            raise Unsupported("data-dependent ite with condition %r" % (args[0],))
        if op == "=":
            if all(isinstance(a, tuple) and a[0] == "bool" for a in args):
                return ("bool", args[0][1] == args[1][1])
            ca, cb = (self._const(a) if isinstance(a, IPoly) else None for a in args)
            if ca is not None and cb is not None:
                return ("bool", ca == cb)
            a, b = args
            d = ip_add(a.t, b.t, -1)
            if not d:
                return ("bool", True)
            if a.hi < b.lo or b.hi < a.lo:
                return ("bool", False)
            return ("nz", d, True)  # condition "d == 0"
        if op in ("bvult", "bvule", "bvugt", "bvuge"):
            a, b = args
            if op == "bvult" and a.hi < b.lo:
                return ("bool", True)
            if op == "bvult" and a.lo >= b.hi:
                return ("bool", False)
            raise Unsupported("symbolic comparison as a value")
        if op == "not" and isinstance(args[0], tuple):
            c = args[0]
            if c[0] == "bool":
                return ("bool", not c[1])
            if c[0] == "nz":
                return ("nz", c[1], not c[2])
            if c[0] == "cmp":
                inv = {"lt": "ge", "le": "gt", "gt": "le", "ge": "lt"}[c[1]]
                return ("cmp", inv, c[2], c[3])
        if op in ("bvor", "bvxor") and len(args) == 2 and all(isinstance(x, IPoly) for x in args):
            if op == "bvor":
                for x, y in ((args[0], args[1]), (args[1], args[0])):
                    if self._const(y) == 0:
                        return x
            return self._opaque_bitop(op, args[0], args[1])
        raise Unsupported("operation %s in the integer domain" % op)


def int_concrete(dom, t, assign, cache=None):
    """evaluate an integer polynomial of an IntDom on a concrete assignment of the INPUT atoms (id -> value); derived
    atoms (floor-divisions introduced by masks, shifts and remainders) are computed from their definitions"""
    cache = {} if cache is None else cache

    def atomval(a):
        if a in assign:
            return assign[a]
        if a in cache:
            return cache[a]
        kind, poly, k = dom.defs[a]
        if kind == "switch":
            raise Unsupported("concrete evaluation through a data-dependent switch")
        v = int_concrete(dom, poly, assign, cache)
        cache[a] = (v >> k) if kind == "div2k" else (v // k)
        return cache[a]

    tot = 0
    for m, c in t.items():
        p = c
        for a in m:
            p *= atomval(a)
        tot += p
    return tot


def run_in_big_stack(fn, *a, **kw):
    out = {}

    def w():
        try:
            out["r"] = fn(*a, **kw)
        except BaseException as ex:  # noqa
            out["e"] = ex

    t = threading.Thread(target=w)
    t.start()
    t.join()
    if "e" in out:
        raise out["e"]
    return out["r"]
