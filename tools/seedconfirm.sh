#!/bin/sh
# usage: tools/seedconfirm.sh <seed-dir (/tmp/seed/X)> <name under /verif/seeded>
# Confirms a seeded change independently in its scratch worktree: (1) library builds and the existing
# test suite passes WITH the change, (2) the demonstration fails with it, (3) passes without it.
# Then archives patch + demo + meta under /verif/seeded/<name>/ and removes the worktree.
S="$1"; NAME="$2"; WT="$S/wt"; OUT="$S/out"; LOG="$S/confirm.log"
: > "$LOG"
cd "$WT" || exit 9
git -C "$WT" diff > "$S/current.diff"
if ! cmp -s "$S/current.diff" "$OUT/patch.diff"; then git -C "$WT" checkout -- . ; git -C "$WT" apply "$OUT/patch.diff" || { echo "patch does not apply" | tee -a "$LOG"; exit 9; }; fi
cmake -S "$WT" -B "$WT/_build" -G Ninja -DCMAKE_BUILD_TYPE=RelWithDebInfo >/dev/null 2>&1
cmake --build "$WT/_build" >>"$LOG" 2>&1 || { echo "BUILD-FAILS-WITH-CHANGE" | tee -a "$LOG"; exit 1; }
T=$("$WT/_build/test/spqlios-test" 2>&1 | tail -3); echo "$T" >> "$LOG"
echo "$T" | grep -q 'PASSED' && ! echo "$T" | grep -q 'FAILED' && tests=pass || tests=fail
sh "$OUT/run_demo.sh" "$WT" >>"$LOG" 2>&1; with=$?
# (not `git stash`: the stash is shared by all worktrees of a repository and collides with concurrently working agents)
git -C "$WT" apply -R "$OUT/patch.diff"; cmake --build "$WT/_build" >>"$LOG" 2>&1
sh "$OUT/run_demo.sh" "$WT" >>"$LOG" 2>&1; without=$?
git -C "$WT" apply "$OUT/patch.diff"
echo "tests_with_change=$tests demo_with_change_rc=$with demo_without_change_rc=$without" | tee -a "$LOG"
if [ "$tests" = pass ] && [ "$with" != 0 ] && [ "$without" = 0 ]; then
  D=/verif/seeded/$NAME; mkdir -p "$D"; cp "$OUT/patch.diff" "$D/"; cp "$OUT"/demo.* "$OUT/run_demo.sh" "$D/" 2>/dev/null
  cp "$OUT/meta.json" "$D/agent_meta.json"
  echo "CONFIRMED $NAME"
  git -C /repo worktree remove --force "$WT"
else
  echo "NOT-CONFIRMED $NAME (see $LOG)"
fi
