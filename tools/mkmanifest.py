#!/usr/bin/env python3
"""Regenerates /verif/MANIFEST.json from the table below (kept in one place so that the manifest
is always valid and in step with the checks that exist)."""
import json
import os

V = os.path.dirname(os.path.dirname(os.path.abspath(__file__)))

CLAIMS = {
    "C05": dict(
        text="Bounded symbolic model checking of the real znx_normalize / vec_znx_normalize_base2k / big / range code: "
             "every k in 1..62 for the primitive and a k set for the limb loop, limb counts 0..3(4) in all orderings, all data "
             "values |a|<=2^62 symbolic, against an exact 128-bit digit/carry specification; in-place, strides, padding and "
             "input-untouched included; the limb loop additionally for every (res_size, a_size) <= 10 with k symbolic and the per-limb primitive kept uninterpreted (the primitive itself being decided for every k), plus long dropped-limb chains bit-precisely. The solver decides all values inside the box; shapes outside the box are not claimed.",
        note="cbmc 6.11 + goto-cc; malloc never fails; module table from the real fill_virtual_table with CPU detection "
             "replaced by a flag; |carry_in| <= 2^(63-k) for the primitive",
        technique="CBMC bounded model checking (SAT) of the real C code, shapes enumerated, data symbolic; native ASan replay of counterexamples",
        ref="DESIGN.md 4/C05"),
    "C08": dict(
        text="Bounded symbolic model checking of every vec_znx_* / vec_znx_big_* element-wise entry point through the public wrappers "
             "and the real dispatch table (both CPU flags): limb counts 0..3(4) in all orderings, three stride combinations, N in {2,4,8}, all "
             "64-bit data symbolic; asserts limb-wise result with zero-extension/truncation, that padding and limbs past res_size keep "
             "their previous contents and that sources are bit-identical; an in-place slice (res==a, incl. rotate/automorphism with symbolic p) pins zero-extension / truncation of in-place calls. Shapes outside the box are not claimed.",
        note="cbmc 6.11 + goto-cc + shim/immintrin.h for the AVX units; exactly-sized heap buffers; malloc never fails; table builders not run",
        technique="CBMC bounded model checking (SAT) of the real C code incl. AVX units through an intrinsics shim, shapes enumerated, data symbolic; native ASan replay",
        ref="DESIGN.md 4/C08"),
    "C09": dict(
        text="Bounded symbolic model checking of the real rotate / (X^p-1) / automorphism kernels (int64 and double, in place and out of "
             "place in the same query) and of the vector/big wrappers against the signed-permutation specification: p fully symbolic over "
             "int64 for N<=8, every residue mod 2N with representatives (incl. negative, far, near INT64_MIN) for N in {16,32} (to 128 thorough), "
             "data symbolic. For N>=16 this is all residues, not all int64 p.",
        note="cbmc 6.11; rnx (X^p-1) on doubles uses an injective probe vector instead of symbolic data (IEEE subtraction behind index selection is "
             "not decided by SAT here); automorphism only for odd p",
        technique="CBMC bounded model checking (SAT), symbolic p with per-loop unwinding bounds and unwinding assertions; residues enumerated for larger N; native replay",
        ref="DESIGN.md 4/C09"),
    "C13": dict(
        text="Bounded symbolic model checking of every supported aliasing pattern of the integer entry points (res==a, res==b, res==a==b for "
             "add/sub incl. big variants; res==a for copy/negate/rotate/automorphism/normalize/big normalize) against the same limb-wise "
             "specification that pins the out-of-place call, for limb counts 0..3(4) in all orderings, both dispatch flags, all data symbolic; pointwise products (reim, reim4, cplx; mul and addmul; ref and FMA) with r==a and r==b as exact real polynomials equal to the definition.",
        note="cbmc 6.11; CBMC's ISO-C memcpy-overlap assertion for dst==src self copies is ignored (values are asserted instead); "
             "floating-point products / inverse DFT aliasing are decided by the FFT/NTT families where listed in evidence",
        technique="CBMC bounded model checking (SAT) of the real C code with aliased exactly-sized buffers; native ASan replay",
        ref="DESIGN.md 4/C13"),
    "C06": dict(
        text="The real reim/cplx FFT and iFFT code (reference C, AVX2/FMA C through the intrinsics shim, the four hand-written 16-point .s "
             "leaves through a validated transpiler) is executed symbolically by CBMC on the real tables for m in {1..64} (256 thorough); the "
             "exported VC is re-interpreted over the reals: every output is an exact linear form of the 2m symbolic inputs with a rigorous "
             "rounding radius, compared with the documented transform (evaluation at omega^(1+4 bitrev j)). A sound unit-input alarm rule "
             "derived from the property decides violations (replayed natively against a long-double DFT); the all-input norm-wise constant "
             "itself is certified component-wise only (numbers in evidence). Tables read-only and memory safety by the bit-precise run; the placement of table and work buffers "
             "by the real new_*_precomp(m, num_buffers) builders (run symbolically, sin/cos values arbitrary) is decided for m <= 8 (address form). For EVERY m = 32..65536 the AVX2 reim drivers issue exactly the passes of the reference drivers (kernels replaced by logging stand-ins via goto-instrument, drivers executed concretely by the symbolic engine).",
        note="cbmc 6.11 symex + vcalg (own re-interpreter) + mpmath; standard rounding model, no over/underflow; tables and kernel selection "
             "dumped natively from the real builders; m>64 (256) and AVX-512/SSE units outside",
        technique="CBMC symbolic execution of the real code, exported VC re-interpreted in a real-arithmetic domain with rounding radii (vcalg); bit-precise CBMC run for memory/frame; native replay",
        ref="DESIGN.md 4/C06"),
    "C14": dict(
        text="Bit-precise bounded model checking of every conversion kernel (reference and AVX2 through the shim) and of the real init_* selection "
             "logic (incl. the declared bound of init_reim_to_znx64_precomp symbolic in [0,64]: the kernel valid below 2^50 is never selected for a larger bound): every lane symbolic over its whole documented window (|x|<2^50, |x/d|<2^50 / 2^52, every int32, |x/d|<2^18, |x/d|<=2^log2overhead), "
             "divisors 2^0..2^16, log2overhead values with every exponent class of x/d as its own query (the unsplit query is undecided by all SAT back ends); "
             "the 1/2 and 2^(L-50) bounds are decided in double arithmetic via a monotone-rounding argument stated in the harness.",
        note="cbmc 6.11 FP bit-blasting (MiniSat); rint is CBMC's model; quick tier covers log2overhead {0,18,29,48} (ref) and {29} (AVX), thorough all 0..48",
        technique="CBMC bounded model checking (SAT, IEEE-754 bit-precise) of the real conversion kernels, domain split by exponent class; native replay",
        ref="DESIGN.md 4/C14"),
    "C10": dict(
        text="The ten real q120 product kernels (reference and AVX2 through the shim) and the six layout conversions are executed symbolically "
             "by CBMC; the exported VC is re-interpreted over the integers (vcalg IntDom: exact polynomials, rigorous intervals, floor-division "
             "atoms for masks/shifts/%, sign-aware for the int64/int128 conversions). Every output lane is proved congruent to its specification "
             "modulo its prime as a polynomial identity with integer witness (cross-checked by cvc5 QF_NIA), for ALL operand values of each layout, "
             "ell in 0..3 (8 thorough) executed in full and EVERY ell <= 10000 by loop summarisation (accumulator increments + epilogue on symbolic accumulators, see C04); every intermediate "
             "add/mul/shift carries a discharged no-wrap obligation; b->int128 is the centered lift; block extract / save are exact mutually inverse copies (bit-precise).",
        note="cbmc 6.11 symex + own integer re-interpreter + cvc5; c-layout contract assumed; product precomputations dumped from the real builders; "
             "the summarisation assumes iterations beyond the 6 unrolled ones run the same loop body",
        technique="CBMC symbolic execution of the real code, exported VC re-interpreted as integer polynomials with intervals (vcalg) + cvc5 QF_NIA identity checks; native replay",
        ref="DESIGN.md 4/C10"),
    "C03": dict(
        text="The real q120 NTT / iNTT (AVX2 code through the shim) is executed symbolically end to end on the real level metadata and power tables for "
             "n in {1..64} (256 thorough) with every lane any 64-bit value; the exported VC is re-interpreted over the integers: each output lane is, modulo "
             "its prime, exactly the linear form of the evaluation map at the n primitive 2n-th roots in some order (forward), its inverse (geometric columns "
             "times n^-1), and the identity for ntt-then-intt; all lazy adds/subtracts/partial products carry discharged no-wrap obligations. The int64->residue "
             "and centered CRT lift conversions are decided on all of int64 / all residues; the NTT120 module round trip vec_znx_dft -> vec_znx_idft / idft_tmp_a returns exactly "
             "the int64 input for N in {1,2,4,8} (all values, by sign class, with zero-extension / truncation). Exactness for sizes above the bound is not claimed (wrap-freedom for every n <= 65536 is C04).",
        note="cbmc 6.11 symex + vcalg integer domain; default 30-bit primes; level metadata/tables dumped from the real builder; n>64 (256) incl. the n=1024 schedule switch outside",
        technique="CBMC symbolic execution of the real code, exported VC re-interpreted as integer linear forms with intervals (vcalg), congruence modulo each prime decided coefficient-wise; native replay",
        ref="DESIGN.md 4/C03"),
    "C04": dict(
        text="Wrap-freedom of the lazy q120 arithmetic decided on the real code. NTT/iNTT: executed end to end for n up to 64 (256) on all 64-bit lanes, and a per-level "
             "interval induction for EVERY n = 2^k <= 65536 (each real level function with the real metadata entry of that n on fresh symbolic vectors; inputs of level l "
             "bounded by the interval derived for level l-1, symbolic twiddle halves bounded by the maxima of the real table; no add/sub/shift leaves its word and each output "
             "is congruent to its butterfly formula, so no 32x32 multiply dropped operand bits). Products: the ten kernels executed at ell in {0..3,100} with congruence, and "
             "EVERY ell <= 10000 = MAX_ELL by loop summarisation from the VC at 6 iterations (accumulator increments bounded over all operand values of the a/b/c layouts; the "
             "epilogue re-evaluated on accumulators of up to 10000 increments: nothing wraps or loses bits, result congruent to the sum). Thorough: kernels unrolled at 10000/2000 terms.",
        note="cbmc 6.11 symex + vcalg integer domain; constants / level metadata / twiddle maxima dumped from the real builders; assumes iterations beyond the 6 unrolled ones run the "
             "same loop body and, for n > 256, that the driver pairs level l's metadata with level l's function as it does for the sizes executed end to end; 29/31-bit prime sets outside",
        technique="CBMC symbolic execution of the real code, exported VC interpreted as integer polynomials with rigorous intervals and explicit no-wrap obligations (vcalg): end-to-end runs, "
                  "per-level induction with symbolic twiddles, loop summarisation of the product kernels; native replay on the real transform / kernel at full size",
        ref="DESIGN.md 4/C04, A.3"),
    "C17": dict(
        text="Bit-precise bounded model checking of the reim4 block extract/save kernels (ref and AVX, all block indices, rows 0..3, strided) and of the "
             "cplx<->reim4 conversion through the real init functions; and exact polynomial equality (vcalg real domain, no tolerance) of the dot products, "
             "pointwise mul/addmul on reim, reim4 and interleaved-complex vectors (ref and FMA) and the windowed convolution with the complex-arithmetic "
             "definition, for every length in the box including 0, with rounding radii reported.",
        note="cbmc 6.11 + shim; m<=32 (64) for layouts, m<=16 for pointwise kernels, sizes<=3 for convolution; standard rounding model for the radii",
        technique="CBMC bounded model checking (SAT) for data movement; CBMC symbolic execution + exported VC re-interpreted as exact real polynomials (vcalg) for the floating-point kernels; native replay",
        ref="DESIGN.md 4/C17"),
    "C01": dict(
        text="The real FFT64 product pipelines (znx_small_single_product; svp_prepare + svp_apply_dft + idft / idft_tmp_a) - module built by the real "
             "fill_module_precomp/fill_virtual_table, FFT kernels ref/AVX2/.s - are executed symbolically for N in {2..32} (64 thorough) with all operand coefficients symbolic; "
             "the exported VC is re-interpreted over the reals: every pre-rounding output is m times the negacyclic bilinear form up to coefficient deviations and rigorous "
             "rounding radii. Certified: |result-(a*b)_k| <= kappa*log2(N)*2^-53*|a|_1|b|_1 + 1/2 with kappa measured (in evidence), hence exactness below that bound; a sound "
             "alarm rule on scaled unit inputs decides violations (replayed natively against an exact 128-bit product). The property's 2-norm constant itself is not decided. Also: the small product written over either operand (operand-integrity tags in the conversion stubs), rows beyond the input size exactly zero incl. empty input (bit-precise), and the conversion kernels the module really carries against the contracts the analysis substitutes.",
        note="cbmc 6.11 symex + vcalg real domain; C14 contracts substituted for the two conversion kernels (stubs); standard rounding model; N>32 (64) outside",
        technique="CBMC symbolic execution of the real pipeline, exported VC re-interpreted as exact real polynomials with rounding radii (vcalg); bit-precise zero-row/frame obligations in C11/C18; native replay",
        ref="DESIGN.md 4/C01"),
    "C02": dict(
        text="vmp_prepare_contiguous + vmp_apply_dft / (vec_znx_dft + vmp_apply_dft_to_dft) + idft, ref and AVX, both prepared layouts (N=4 column-major; N=8,16 blocks): "
             "for nrows 1..3, ncols 1..5, res_size in {0,1,2,3,5}, a_size 0..3 every output column is the sum over min(nrows,a_size) rows of the negacyclic products (same "
             "real-polynomial analysis as C01), columns beyond ncols are zero, no output term mentions scratch or previous contents; both entry points give the same polynomial.",
        note="cbmc 6.11 symex + vcalg real domain; C14 conversion contracts substituted; N>=32 and matrices beyond 3x5 outside; quick tier runs half of the shape combinations",
        technique="CBMC symbolic execution of the real pipeline, exported VC re-interpreted as exact real polynomials with rounding radii (vcalg); native replay against an exact integer product",
        ref="DESIGN.md 4/C02"),
    "C11": dict(
        text="Every DFT-space public entry point (fft64 and ntt120 dft/idft/idft_tmp_a, svp, small product, vmp prepare/apply/apply_dft_to_dft, ref and AVX) and a slice of the "
             "coefficient-space ones run on exactly-sized heap objects sized by the real bytes_of_*/ *_tmp_bytes functions, all data symbolic: CBMC's pointer and bounds checks "
             "decide that no access leaves a declared extent, for limb counts 0..3(5), nrows/ncols to 3x5, strides (incl. equal padded strides for every operand), 8/16/24-byte misalignment, both cpu flags; new_/delete_ pairs under --memory-leak-check: heap MODULE filled by the real fill_module_precomp and released by the real delete_module_info, the object allocators, and the REAL q120 NTT table builders (n = 1, 2, 4) with their delete functions.",
        note="cbmc 6.11 (formula sliced: FP values do not matter); module built by the real fill_module_precomp with the four trig/level table builders redirected to dumped tables; "
             "one known finding (NTT120 bytes_of_*); FFT table builders are not run under the leak check (libm)",
        technique="CBMC bounded model checking (pointer/bounds checks on exactly-sized objects, SAT) of the real entry points; native ASan replay",
        ref="DESIGN.md 4/C11"),
    "C12": dict(
        text="Sequential non-interference reduction plus call-granularity interleavings (CBMC cannot explore instruction-level schedules of this code): (1) frame - MODULE, virtual table, "
             "precomputed objects and sources bit-identical after every module-level entry point; (2) the same entry points verified with every static-lifetime object havocked "
             "(--nondet-static); (2') SSA write set: in the unsliced VC of every entry point no shared (non thread-local) static-lifetime object is assigned after module construction - "
             "no lazily initialised table, static scratch buffer or counter; (3) *_simple warm-up protocol: after one call per dimension no later call (same or other parameters) assigns "
             "shared statics or pre-existing heap, and it returns the terms of a fresh table; (4) the two functions with thread-local caches under two emulated threads (one slot per "
             "thread), three-call histories with parameters differing in one component. Write-set hits are confirmed by ThreadSanitizer on two real threads, thread histories on two real pthreads.",
        note="cbmc 6.11 + vcalg; theorem: per-call frame + no shared static writes => race freedom/isolation for calls on disjoint data; weak memory and torn reads during the documented-as-unsafe "
             "first use are outside; thread-local objects are recognised by CBMC's SSA naming (f::1::x!0)",
        technique="CBMC bounded model checking of per-call frame conditions and independence from static state (--nondet-static); SSA write-set analysis of the exported VC; uninterpreted-term "
                  "equality of call histories incl. two emulated threads; ThreadSanitizer / pthread native replay. Not an instruction-level schedule exploration",
        ref="DESIGN.md 4/C12, A.3"),
    "C15": dict(
        text="(1) three/four-call histories f(M1,P1); f(M2,P2); [f(M1,P2);] f(M1,P1) through every CBMC-executable *_simple caching entry point against a freshly initialised "
             "table, one parameter changed at a time: outputs compared as uninterpreted terms (equal terms => equal bits), cross-checked by z3 QF_UF; (2) integer entry points with "
             "nondeterministic previous contents of outputs: result is a function of the inputs only; (3) DFT-space entry points at buffer offsets 0/8/24 (extents) and the product pipelines at N=16 with scratch buffers 8/24/56 bytes past a 64-byte boundary (values: same exact polynomial), matrix pipelines with an empty input on arbitrary scratch (no output term mentions scratch), the inverse DFT in place with junk beyond the input size.",
        note="cbmc 6.11 symex + vcalg UF domain + z3; histories of length <= 4; reim/cplx (i)fft_simple not executable symbolically (builder casts pointers through integers)",
        technique="CBMC symbolic execution, exported VC compared in an uninterpreted-function domain (hash-consed terms, z3 QF_UF cross-check); CBMC SAT for the integer entry points; native replay",
        ref="DESIGN.md 4/C15"),
    "C18": dict(
        text="Every source operand (whole allocation incl. stride padding), prepared scalar/matrix, the MODULE, its virtual table and precomputed objects are snapshotted and "
             "compared after every public entry point (fft64/ntt120, ref/AVX) over the C08/C11 shape boxes, with and without aliasing of other arguments; plus the x/y operands of "
             "the q120 products and the operands of the complex-vector kernels; every DFT-space entry point also with all its buffers carved back to back out of one arena (forward / reverse order), so that sources adjacent to the output are covered. Documented overwriting variants are the only exceptions.",
        note="cbmc 6.11; a source used as scratch and restored exactly on every path is indistinguishable sequentially",
        technique="CBMC bounded model checking (SAT) of snapshot equality on exactly-sized heap objects, module from the real fill_module_precomp; native replay",
        ref="DESIGN.md 4/C18"),
    "C07": dict(
        text="Pairwise: znx add/sub/negate AVX vs ref bit for bit on the same symbolic data (sizes 1..16, unaligned buffers); rnx_divide_by_m AVX vs ref as equal "
             "uninterpreted terms; every other accelerated kernel through the obligation families of C06 (FFT ref/AVX2/.s both equal the documented DFT within "
             "their radii), C17 (layout kernels bit for bit, dot products / pointwise kernels with the SAME exact polynomial for ref and FMA), C14 (conversions: same "
             "bit-precise contract), C10 (q120 products ref/AVX2 congruent to the same sum, every ell <= 10000 by loop summarisation), the reim FFT/iFFT driver schedules AVX2 = reference pass for pass for every m up to 65536, and the public API under both cpu flags (C08 slice, product pipelines).",
        note="cbmc 6.11 + shim + vcalg; AVX-512, SSE, NEON units are not encoded; floating-point pairs are related through equal exact-semantics polynomials + reported radii",
        technique="CBMC bounded model checking (SAT) for integer/data-movement pairs; CBMC symbolic execution + vcalg (UF / real / integer domains) for the rest; native replay",
        ref="DESIGN.md 4/C07, A.2"),
    "C16": dict(
        text="Direct pipelines decided end to end on the real code: rotate->automorphism->add->normalize (bit-precise, symbolic data and p1/p2, both cpu flags) against the "
             "digits of the ring expression in 128-bit arithmetic; NTT120 vec_znx_dft->vec_znx_idft/_tmp_a returning exactly the input for every int64 coefficient (integer "
             "domain, by sign class, incl. zero-extension/truncation); add_small2->big rotate->big (range) normalize with fewer/as many/more output limbs than the big vector (bit-precise); FFT64 pipelines of 3-4 calls (svp and vmp chains) as exact real polynomials. Arbitrary programs are "
             "covered only by the compositional argument over C01-C03/C05/C08/C09 within their bounds.",
        note="cbmc 6.11 + vcalg; fixed pipelines at N<=8; no random program generation; mixed FFT64-product + integer-tail pipelines not executed end to end",
        technique="CBMC bounded model checking (SAT) for the integer pipeline; CBMC symbolic execution + vcalg integer/real domains for the NTT120 and FFT64 pipelines; native replay",
        ref="DESIGN.md 4/C16, A.2"),
}

# additions of seed round 6 (kept apart from the long texts above)
ROUND6 = {
    "C01": "Code with data-dependent control flow on doubles (e.g. a zero test in DFT space) is refused by the real-domain reading; such obligations fall back to structured "
           "native probe operands (monomials at 0, 1, N/2, N-1, zero operand) on the real pipeline and say so.",
    "C03": "Module lifetime: two NTT120 modules of different N filled / released by the real fill_module_precomp / delete_module_info (table functions replaced by stand-ins of the "
           "same object structure) - the tables of a live module stay valid and unchanged, nothing is freed twice or leaked.",
    "C04": "The native whole-transform oracle of the level induction also runs butterfly-shaped extreme patterns for every level.",
    "C05": "The limb loop additionally for EVERY ring dimension N = 2^0..2^16 as a solver variable: projection onto one symbolic coefficient column, the elementwise primitive "
           "replaced by its uninterpreted step on that column's cells, which are tracked from the pointer offsets of each call (no buffer is dereferenced), sizes <= 4.",
    "C11": "Also here: the inverse DFT written over its own input with more output rows than input rows (no dependence on prior output contents), and the NTT120 module "
           "fill/delete lifetime obligations.",
    "C12": "SSA write set of the real reim FFT/iFFT drivers (reference and AVX2) on both sides of the m = 2048 depth-first switch (m = 64, 2048, 4096, 8192; pass kernels "
           "replaced by logging stand-ins), confirmed by ThreadSanitizer.",
    "C15": "The reim4 convolution and pointwise multiply kernels on an arbitrary prior output: every result term is a term of the operands only.",
    "C16": "An integer pipeline with in-place steps (vec_znx_copy truncating / zero-extending inside its own buffer, in-place negate) is decided bit-precisely.",
    "C17": "Every pointwise multiply / multiply-accumulate kernel also with the output being operand a or operand b.",
    "C18": "q120 conversions and lazy additions leave their sources bit-identical (a reduced representative written back counts as a modification).",
}
for _k, _v in ROUND6.items():
    if _k in CLAIMS:
        CLAIMS[_k]["text"] = CLAIMS[_k]["text"].rstrip() + " " + _v

NOT_YET = "check not built yet in this session (work in progress; see DESIGN.md section 4 for the plan)"


def main():
    props = [json.loads(l)["id"] for l in open(os.path.join(V, "properties.jsonl"))]
    checks = []
    na = []
    for p in props:
        c = CLAIMS.get(p)
        if not c:
            na.append({"property_id": p, "reason": NA.get(p, NOT_YET)})
            continue
        checks.append({
            "property_id": p,
            "quick_cmd": "./check %s --tier quick" % p,
            "thorough_cmd": "./check %s --tier thorough" % p,
            "evidence_file": "evidence/%s.json" % p,
            "replay_cmd_template": "./check %s --replay {path}" % p,
            "engine": "vf",
            "level_claimed": {"category": "model_checking", "text": c["text"], "design_ref": c["ref"]},
            "level_note": c["note"],
            "technique": c["technique"],
        })
    m = {
        "version": 1,
        "setup_cmd": "./tools/setup.sh",
        "hooks": {
            "guard": "SPQLIOS_VERIF",
            "enable": "none needed: no guarded hook is present in /repo; the checks compile the unmodified sources with goto-cc "
                      "(-DNDEBUG -D__CPROVER__, shim/immintrin.h first on the include path)",
            "baseline_off_cmd": "cmake -S /repo -B /repo/_build -G Ninja >/dev/null && cmake --build /repo/_build >/dev/null && ctest --test-dir /repo/_build -j8 --timeout 900",
            "source_commits": [],
            "add_only": True,
        },
        "engines": [{"name": "vf", "path": "tools/vf", "serves_properties": sorted(CLAIMS),
                     "kind_free_text": "solver-based checking of the real C code: goto-cc + CBMC (SAT) on harness instances with enumerated "
                                       "shapes and symbolic data; exported verification conditions re-interpreted over integers/reals/UF and "
                                       "decided by cvc5/z3 where bit-blasting does not finish"}],
        "checks": checks,
        "not_applicable": na,
        "notes": "Exit codes of ./check: 0 held on everything explored, 1 VIOLATION (solver counterexample reproduced natively), "
                 "2 inconclusive (timeout, vacuous harness, encoding mismatch) - never reported as a verdict. Fixed defects are listed in known_findings.txt.",
    }
    with open(os.path.join(V, "MANIFEST.json"), "w") as f:
        json.dump(m, f, indent=1)
        f.write("\n")


NA = {}

if __name__ == "__main__":
    main()
