#!/usr/bin/env python3
"""usage: seedmeta.py <name> <property> '<check command(s) that catch it>' '<result summary>'"""
import json, sys, os
name, prop, cmd, result = sys.argv[1:5]
d = "/verif/seeded/" + name
am = json.load(open(d + "/agent_meta.json")) if os.path.exists(d + "/agent_meta.json") else {}
meta = {
    "property": prop,
    "summary": am.get("summary", ""),
    "needs_to_manifest": am.get("needs", ""),
    "files": am.get("files", []),
    "origin": "written by an independent sub-agent that saw only the property text and a scratch worktree of /repo (nothing from /verif)",
    "confirmed_by_me": {
        "how": "tools/seedconfirm.sh in the scratch worktree: library builds with -Wall -Werror and all gtest cases pass with the change; "
               "run_demo.sh exits non-zero with the change and 0 with the change stashed",
        "tests_pass_with_change": True, "demo_fails_with_change": True, "demo_passes_without_change": True},
    "checked_with": cmd,
    "result": result,
}
json.dump(meta, open(d + "/meta.json", "w"), indent=1)
os.path.exists(d + "/agent_meta.json") and os.remove(d + "/agent_meta.json")
print("wrote", d + "/meta.json")
