/* Verification shim for <immintrin.h>: plain-C models of exactly the intrinsics that
 * spqlios-arithmetic uses, following the Intel pseudo-code lane by lane.
 *
 * Why: CBMC 6.11 mis-evaluates GCC's vector casts (e.g. _mm256_castsi256_pd becomes an
 * int->double *value* conversion) and has no body for ~35 __builtin_ia32_* builtins, so the
 * real header cannot be used under the model checker.  This header is put first on the
 * include path (-I /verif/shim) when the AVX units of /repo are compiled with goto-cc.
 *
 * It is validated natively on every run (tools/shimtest.c): every function below is compared
 * against the real intrinsic on random and edge operands, bit for bit.
 *
 * Names can be prefixed (SHIM_PREFIXED) so that shim and real header coexist in that test.
 */
#ifndef VF_SHIM_IMMINTRIN_H
#define VF_SHIM_IMMINTRIN_H

#include <stdint.h>
#include <string.h>
#include <math.h>

#ifdef SHIM_PREFIXED
#define SN(x) shim##x
#else
#define SN(x) x
#endif

typedef struct { double d[2]; } SN(__m128d);
typedef struct { uint64_t q[2]; } SN(__m128i);
typedef struct { double d[4]; } SN(__m256d);
typedef struct { uint64_t q[4]; } SN(__m256i);
typedef struct { double d[8]; } SN(__m512d);

#define VF_INL static inline __attribute__((unused))

/* verification-only switch: when non-zero, 64-bit lane add/sub/shift-left assert that the
 * unsigned result did not wrap (used by the q120 "lazy arithmetic never wraps" harnesses). */
#ifdef __CPROVER__
extern int vf_nowrap;
#define VF_NOWRAP_ASSERT(c, msg) \
  do {                           \
    if (vf_nowrap) __CPROVER_assert((c), msg); \
  } while (0)
#define VF_ALIGN_ASSERT(p, a) __CPROVER_assert((__CPROVER_POINTER_OFFSET(p) % (a)) == 0, "aligned vector access")
#else
#define VF_NOWRAP_ASSERT(c, msg) ((void)0)
#define VF_ALIGN_ASSERT(p, a) ((void)0)
#endif

VF_INL uint64_t vf_d2u(double x) {
  uint64_t u;
  memcpy(&u, &x, 8);
  return u;
}
VF_INL double vf_u2d(uint64_t u) {
  double x;
  memcpy(&x, &u, 8);
  return x;
}

/* ---------------------------------------------------------------- 256-bit double */
VF_INL SN(__m256d) SN(_mm256_loadu_pd)(const double* p) {
  SN(__m256d) r;
  for (int i = 0; i < 4; ++i) r.d[i] = p[i];
  return r;
}
VF_INL SN(__m256d) SN(_mm256_load_pd)(const double* p) {
  VF_ALIGN_ASSERT(p, 32);
  SN(__m256d) r;
  for (int i = 0; i < 4; ++i) r.d[i] = p[i];
  return r;
}
VF_INL void SN(_mm256_storeu_pd)(double* p, SN(__m256d) a) {
  for (int i = 0; i < 4; ++i) p[i] = a.d[i];
}
VF_INL SN(__m256d) SN(_mm256_set1_pd)(double x) {
  SN(__m256d) r;
  for (int i = 0; i < 4; ++i) r.d[i] = x;
  return r;
}
VF_INL SN(__m256d) SN(_mm256_setzero_pd)(void) {
  SN(__m256d) r;
  for (int i = 0; i < 4; ++i) r.d[i] = 0.0;
  return r;
}
VF_INL SN(__m256d) SN(_mm256_set_m128d)(SN(__m128d) hi, SN(__m128d) lo) {
  SN(__m256d) r;
  r.d[0] = lo.d[0];
  r.d[1] = lo.d[1];
  r.d[2] = hi.d[0];
  r.d[3] = hi.d[1];
  return r;
}
VF_INL SN(__m256d) SN(_mm256_add_pd)(SN(__m256d) a, SN(__m256d) b) {
  SN(__m256d) r;
  for (int i = 0; i < 4; ++i) r.d[i] = a.d[i] + b.d[i];
  return r;
}
VF_INL SN(__m256d) SN(_mm256_sub_pd)(SN(__m256d) a, SN(__m256d) b) {
  SN(__m256d) r;
  for (int i = 0; i < 4; ++i) r.d[i] = a.d[i] - b.d[i];
  return r;
}
VF_INL SN(__m256d) SN(_mm256_mul_pd)(SN(__m256d) a, SN(__m256d) b) {
  SN(__m256d) r;
  for (int i = 0; i < 4; ++i) r.d[i] = a.d[i] * b.d[i];
  return r;
}
VF_INL SN(__m256d) SN(_mm256_addsub_pd)(SN(__m256d) a, SN(__m256d) b) {
  SN(__m256d) r;
  r.d[0] = a.d[0] - b.d[0];
  r.d[1] = a.d[1] + b.d[1];
  r.d[2] = a.d[2] - b.d[2];
  r.d[3] = a.d[3] + b.d[3];
  return r;
}
VF_INL SN(__m256d) SN(_mm256_fmadd_pd)(SN(__m256d) a, SN(__m256d) b, SN(__m256d) c) {
  SN(__m256d) r;
  for (int i = 0; i < 4; ++i) r.d[i] = fma(a.d[i], b.d[i], c.d[i]);
  return r;
}
VF_INL SN(__m256d) SN(_mm256_fmsub_pd)(SN(__m256d) a, SN(__m256d) b, SN(__m256d) c) {
  SN(__m256d) r;
  for (int i = 0; i < 4; ++i) r.d[i] = fma(a.d[i], b.d[i], -c.d[i]);
  return r;
}
VF_INL SN(__m256d) SN(_mm256_fmaddsub_pd)(SN(__m256d) a, SN(__m256d) b, SN(__m256d) c) {
  SN(__m256d) r;
  r.d[0] = fma(a.d[0], b.d[0], -c.d[0]);
  r.d[1] = fma(a.d[1], b.d[1], c.d[1]);
  r.d[2] = fma(a.d[2], b.d[2], -c.d[2]);
  r.d[3] = fma(a.d[3], b.d[3], c.d[3]);
  return r;
}
VF_INL SN(__m256d) SN(_mm256_fmsubadd_pd)(SN(__m256d) a, SN(__m256d) b, SN(__m256d) c) {
  SN(__m256d) r;
  r.d[0] = fma(a.d[0], b.d[0], c.d[0]);
  r.d[1] = fma(a.d[1], b.d[1], -c.d[1]);
  r.d[2] = fma(a.d[2], b.d[2], c.d[2]);
  r.d[3] = fma(a.d[3], b.d[3], -c.d[3]);
  return r;
}
VF_INL SN(__m256d) SN(_mm256_and_pd)(SN(__m256d) a, SN(__m256d) b) {
  SN(__m256d) r;
  for (int i = 0; i < 4; ++i) r.d[i] = vf_u2d(vf_d2u(a.d[i]) & vf_d2u(b.d[i]));
  return r;
}
VF_INL SN(__m256d) SN(_mm256_or_pd)(SN(__m256d) a, SN(__m256d) b) {
  SN(__m256d) r;
  for (int i = 0; i < 4; ++i) r.d[i] = vf_u2d(vf_d2u(a.d[i]) | vf_d2u(b.d[i]));
  return r;
}
VF_INL SN(__m256d) SN(_mm256_andnot_pd)(SN(__m256d) a, SN(__m256d) b) {
  SN(__m256d) r;
  for (int i = 0; i < 4; ++i) r.d[i] = vf_u2d(~vf_d2u(a.d[i]) & vf_d2u(b.d[i]));
  return r;
}
/* comparison predicates of _mm256_cmp_pd (the quiet / signalling distinction has no observable effect here) */
#ifndef SHIM_PREFIXED
#define _CMP_EQ_OQ 0x00
#define _CMP_LT_OS 0x01
#define _CMP_LE_OS 0x02
#define _CMP_UNORD_Q 0x03
#define _CMP_NEQ_UQ 0x04
#define _CMP_NLT_US 0x05
#define _CMP_NLE_US 0x06
#define _CMP_ORD_Q 0x07
#define _CMP_EQ_UQ 0x08
#define _CMP_NGE_US 0x09
#define _CMP_NGT_US 0x0a
#define _CMP_FALSE_OQ 0x0b
#define _CMP_NEQ_OQ 0x0c
#define _CMP_GE_OS 0x0d
#define _CMP_GT_OS 0x0e
#define _CMP_TRUE_UQ 0x0f
#define _CMP_EQ_OS 0x10
#define _CMP_LT_OQ 0x11
#define _CMP_LE_OQ 0x12
#define _CMP_UNORD_S 0x13
#define _CMP_NEQ_US 0x14
#define _CMP_NLT_UQ 0x15
#define _CMP_NLE_UQ 0x16
#define _CMP_ORD_S 0x17
#define _CMP_EQ_US 0x18
#define _CMP_NGE_UQ 0x19
#define _CMP_NGT_UQ 0x1a
#define _CMP_FALSE_OS 0x1b
#define _CMP_NEQ_OS 0x1c
#define _CMP_GE_OQ 0x1d
#define _CMP_GT_OQ 0x1e
#define _CMP_TRUE_US 0x1f
#endif
VF_INL int vf_cmp_pred(double x, double y, int imm) {
  const int un = (x != x) || (y != y);
  switch (imm & 15) {
    case 0: return !un && x == y;
    case 1: return !un && x < y;
    case 2: return !un && x <= y;
    case 3: return un;
    case 4: return un || x != y;
    case 5: return un || !(x < y);
    case 6: return un || !(x <= y);
    case 7: return !un;
    case 8: return un || x == y;
    case 9: return un || !(x >= y);
    case 10: return un || !(x > y);
    case 11: return 0;
    case 12: return !un && x != y;
    case 13: return !un && x >= y;
    case 14: return !un && x > y;
    default: return 1;
  }
}
VF_INL SN(__m256d) SN(_mm256_cmp_pd)(SN(__m256d) a, SN(__m256d) b, int imm) {
  SN(__m256d) r;
  for (int i = 0; i < 4; ++i) r.d[i] = vf_u2d(vf_cmp_pred(a.d[i], b.d[i], imm) ? ~UINT64_C(0) : 0);
  return r;
}
VF_INL SN(__m256d) SN(_mm256_blendv_pd)(SN(__m256d) a, SN(__m256d) b, SN(__m256d) mask) {
  SN(__m256d) r;
  for (int i = 0; i < 4; ++i) r.d[i] = (vf_d2u(mask.d[i]) >> 63) ? b.d[i] : a.d[i];
  return r;
}
VF_INL SN(__m256d) SN(_mm256_max_pd)(SN(__m256d) a, SN(__m256d) b) {
  SN(__m256d) r; /* x86 semantics: the second operand unless a > b (NaN in either operand or equal values: b) */
  for (int i = 0; i < 4; ++i) r.d[i] = a.d[i] > b.d[i] ? a.d[i] : b.d[i];
  return r;
}
VF_INL SN(__m256d) SN(_mm256_min_pd)(SN(__m256d) a, SN(__m256d) b) {
  SN(__m256d) r;
  for (int i = 0; i < 4; ++i) r.d[i] = a.d[i] < b.d[i] ? a.d[i] : b.d[i];
  return r;
}
VF_INL SN(__m256d) SN(_mm256_xor_pd)(SN(__m256d) a, SN(__m256d) b) {
  SN(__m256d) r;
  for (int i = 0; i < 4; ++i) r.d[i] = vf_u2d(vf_d2u(a.d[i]) ^ vf_d2u(b.d[i]));
  return r;
}
VF_INL SN(__m256d) SN(_mm256_shuffle_pd)(SN(__m256d) a, SN(__m256d) b, int imm) {
  SN(__m256d) r;
  r.d[0] = (imm & 1) ? a.d[1] : a.d[0];
  r.d[1] = (imm & 2) ? b.d[1] : b.d[0];
  r.d[2] = (imm & 4) ? a.d[3] : a.d[2];
  r.d[3] = (imm & 8) ? b.d[3] : b.d[2];
  return r;
}
VF_INL SN(__m256d) SN(_mm256_permute_pd)(SN(__m256d) a, int imm) {
  SN(__m256d) r;
  r.d[0] = (imm & 1) ? a.d[1] : a.d[0];
  r.d[1] = (imm & 2) ? a.d[1] : a.d[0];
  r.d[2] = (imm & 4) ? a.d[3] : a.d[2];
  r.d[3] = (imm & 8) ? a.d[3] : a.d[2];
  return r;
}
VF_INL SN(__m256d) SN(_mm256_permute4x64_pd)(SN(__m256d) a, int imm) {
  SN(__m256d) r;
  for (int i = 0; i < 4; ++i) r.d[i] = a.d[(imm >> (2 * i)) & 3];
  return r;
}
VF_INL SN(__m256d) SN(_mm256_permute2f128_pd)(SN(__m256d) a, SN(__m256d) b, int imm) {
  SN(__m256d) r;
  for (int h = 0; h < 2; ++h) {
    int c = (imm >> (4 * h)) & 0xf;
    for (int k = 0; k < 2; ++k) {
      double v;
      switch (c & 3) {
        case 0: v = a.d[k]; break;
        case 1: v = a.d[2 + k]; break;
        case 2: v = b.d[k]; break;
        default: v = b.d[2 + k]; break;
      }
      if (c & 8) v = 0.0;
      r.d[2 * h + k] = v;
    }
  }
  return r;
}
VF_INL SN(__m256d) SN(_mm256_unpacklo_pd)(SN(__m256d) a, SN(__m256d) b) {
  SN(__m256d) r;
  r.d[0] = a.d[0];
  r.d[1] = b.d[0];
  r.d[2] = a.d[2];
  r.d[3] = b.d[2];
  return r;
}
VF_INL SN(__m256d) SN(_mm256_unpackhi_pd)(SN(__m256d) a, SN(__m256d) b) {
  SN(__m256d) r;
  r.d[0] = a.d[1];
  r.d[1] = b.d[1];
  r.d[2] = a.d[3];
  r.d[3] = b.d[3];
  return r;
}
VF_INL void SN(_mm256_zeroupper)(void) {}

/* ---------------------------------------------------------------- 256-bit integer */
VF_INL SN(__m256i) SN(_mm256_loadu_si256)(const SN(__m256i)* p) {
  SN(__m256i) r;
  const uint64_t* q = (const uint64_t*)p;
  for (int i = 0; i < 4; ++i) r.q[i] = q[i];
  return r;
}
VF_INL void SN(_mm256_storeu_si256)(SN(__m256i)* p, SN(__m256i) a) {
  uint64_t* q = (uint64_t*)p;
  for (int i = 0; i < 4; ++i) q[i] = a.q[i];
}
VF_INL SN(__m256i) SN(_mm256_setzero_si256)(void) {
  SN(__m256i) r;
  for (int i = 0; i < 4; ++i) r.q[i] = 0;
  return r;
}
VF_INL SN(__m256i) SN(_mm256_set1_epi64x)(long long x) {
  SN(__m256i) r;
  for (int i = 0; i < 4; ++i) r.q[i] = (uint64_t)x;
  return r;
}
VF_INL SN(__m256i) SN(_mm256_set1_epi32)(int x) {
  SN(__m256i) r;
  uint64_t w = (uint64_t)(uint32_t)x;
  for (int i = 0; i < 4; ++i) r.q[i] = w | (w << 32);
  return r;
}
VF_INL SN(__m256i) SN(_mm256_set_epi64x)(long long e3, long long e2, long long e1, long long e0) {
  SN(__m256i) r;
  r.q[0] = (uint64_t)e0;
  r.q[1] = (uint64_t)e1;
  r.q[2] = (uint64_t)e2;
  r.q[3] = (uint64_t)e3;
  return r;
}
VF_INL SN(__m256i) SN(_mm256_set_epi32)(int e7, int e6, int e5, int e4, int e3, int e2, int e1, int e0) {
  SN(__m256i) r;
  r.q[0] = (uint64_t)(uint32_t)e0 | ((uint64_t)(uint32_t)e1 << 32);
  r.q[1] = (uint64_t)(uint32_t)e2 | ((uint64_t)(uint32_t)e3 << 32);
  r.q[2] = (uint64_t)(uint32_t)e4 | ((uint64_t)(uint32_t)e5 << 32);
  r.q[3] = (uint64_t)(uint32_t)e6 | ((uint64_t)(uint32_t)e7 << 32);
  return r;
}
VF_INL SN(__m256i) SN(_mm256_add_epi64)(SN(__m256i) a, SN(__m256i) b) {
  SN(__m256i) r;
  for (int i = 0; i < 4; ++i) {
    r.q[i] = a.q[i] + b.q[i];
    VF_NOWRAP_ASSERT(r.q[i] >= a.q[i], "nowrap: _mm256_add_epi64 lane wraps 2^64");
  }
  return r;
}
VF_INL SN(__m256i) SN(_mm256_sub_epi64)(SN(__m256i) a, SN(__m256i) b) {
  SN(__m256i) r;
  for (int i = 0; i < 4; ++i) {
    r.q[i] = a.q[i] - b.q[i];
    VF_NOWRAP_ASSERT(a.q[i] >= b.q[i], "nowrap: _mm256_sub_epi64 lane borrows");
  }
  return r;
}
VF_INL SN(__m256i) SN(_mm256_add_epi32)(SN(__m256i) a, SN(__m256i) b) {
  SN(__m256i) r;
  for (int i = 0; i < 4; ++i) {
    uint32_t lo = (uint32_t)a.q[i] + (uint32_t)b.q[i];
    uint32_t hi = (uint32_t)(a.q[i] >> 32) + (uint32_t)(b.q[i] >> 32);
    r.q[i] = (uint64_t)lo | ((uint64_t)hi << 32);
  }
  return r;
}
VF_INL SN(__m256i) SN(_mm256_mul_epu32)(SN(__m256i) a, SN(__m256i) b) {
  SN(__m256i) r;
  for (int i = 0; i < 4; ++i) r.q[i] = (a.q[i] & 0xffffffffULL) * (b.q[i] & 0xffffffffULL);
  return r;
}
VF_INL SN(__m256i) SN(_mm256_mul_epi32)(SN(__m256i) a, SN(__m256i) b) {
  SN(__m256i) r;
  for (int i = 0; i < 4; ++i) r.q[i] = (uint64_t)((int64_t)(int32_t)(uint32_t)a.q[i] * (int64_t)(int32_t)(uint32_t)b.q[i]);
  return r;
}
VF_INL SN(__m256i) SN(_mm256_and_si256)(SN(__m256i) a, SN(__m256i) b) {
  SN(__m256i) r;
  for (int i = 0; i < 4; ++i) r.q[i] = a.q[i] & b.q[i];
  return r;
}
VF_INL SN(__m256i) SN(_mm256_or_si256)(SN(__m256i) a, SN(__m256i) b) {
  SN(__m256i) r;
  for (int i = 0; i < 4; ++i) r.q[i] = a.q[i] | b.q[i];
  return r;
}
/* comparison / test / select intrinsics a plausible change to the integer kernels could introduce */
VF_INL SN(__m256i) SN(_mm256_andnot_si256)(SN(__m256i) a, SN(__m256i) b) {
  SN(__m256i) r;
  for (int i = 0; i < 4; ++i) r.q[i] = ~a.q[i] & b.q[i];
  return r;
}
VF_INL int SN(_mm256_testz_si256)(SN(__m256i) a, SN(__m256i) b) {
  uint64_t x = 0;
  for (int i = 0; i < 4; ++i) x |= a.q[i] & b.q[i];
  return x == 0;
}
VF_INL int SN(_mm256_testc_si256)(SN(__m256i) a, SN(__m256i) b) {
  uint64_t x = 0;
  for (int i = 0; i < 4; ++i) x |= ~a.q[i] & b.q[i];
  return x == 0;
}
VF_INL SN(__m256i) SN(_mm256_cmpeq_epi64)(SN(__m256i) a, SN(__m256i) b) {
  SN(__m256i) r;
  for (int i = 0; i < 4; ++i) r.q[i] = a.q[i] == b.q[i] ? ~UINT64_C(0) : 0;
  return r;
}
VF_INL SN(__m256i) SN(_mm256_cmpgt_epi64)(SN(__m256i) a, SN(__m256i) b) {
  SN(__m256i) r;
  for (int i = 0; i < 4; ++i) r.q[i] = (int64_t)a.q[i] > (int64_t)b.q[i] ? ~UINT64_C(0) : 0;
  return r;
}
VF_INL SN(__m256i) SN(_mm256_cmpeq_epi32)(SN(__m256i) a, SN(__m256i) b) {
  SN(__m256i) r;
  for (int i = 0; i < 4; ++i) {
    uint64_t lo = (uint32_t)a.q[i] == (uint32_t)b.q[i] ? 0xffffffffULL : 0, hi = (a.q[i] >> 32) == (b.q[i] >> 32) ? 0xffffffffULL : 0;
    r.q[i] = lo | (hi << 32);
  }
  return r;
}
VF_INL SN(__m256i) SN(_mm256_blendv_epi8)(SN(__m256i) a, SN(__m256i) b, SN(__m256i) mask) {
  SN(__m256i) r;
  for (int i = 0; i < 4; ++i) {
    uint64_t m = 0;
    for (int k = 0; k < 8; ++k)
      if ((mask.q[i] >> (8 * k + 7)) & 1) m |= 0xffULL << (8 * k);
    r.q[i] = (a.q[i] & ~m) | (b.q[i] & m);
  }
  return r;
}
VF_INL int SN(_mm256_movemask_epi8)(SN(__m256i) a) {
  unsigned r = 0;
  for (int i = 0; i < 4; ++i)
    for (int k = 0; k < 8; ++k) r |= (unsigned)((a.q[i] >> (8 * k + 7)) & 1) << (8 * i + k);
  return (int)r;
}
VF_INL SN(__m256i) SN(_mm256_sub_epi32)(SN(__m256i) a, SN(__m256i) b) {
  SN(__m256i) r;
  for (int i = 0; i < 4; ++i) {
    uint32_t lo = (uint32_t)a.q[i] - (uint32_t)b.q[i], hi = (uint32_t)(a.q[i] >> 32) - (uint32_t)(b.q[i] >> 32);
    r.q[i] = (uint64_t)lo | ((uint64_t)hi << 32);
  }
  return r;
}
VF_INL SN(__m256i) SN(_mm256_srli_epi32)(SN(__m256i) a, int c) {
  SN(__m256i) r;
  for (int i = 0; i < 4; ++i) {
    uint32_t lo = c > 31 ? 0 : (uint32_t)a.q[i] >> c, hi = c > 31 ? 0 : (uint32_t)(a.q[i] >> 32) >> c;
    r.q[i] = (uint64_t)lo | ((uint64_t)hi << 32);
  }
  return r;
}
VF_INL SN(__m256i) SN(_mm256_slli_epi32)(SN(__m256i) a, int c) {
  SN(__m256i) r;
  for (int i = 0; i < 4; ++i) {
    uint32_t lo = c > 31 ? 0 : (uint32_t)a.q[i] << c, hi = c > 31 ? 0 : (uint32_t)(a.q[i] >> 32) << c;
    r.q[i] = (uint64_t)lo | ((uint64_t)hi << 32);
  }
  return r;
}
VF_INL SN(__m256i) SN(_mm256_xor_si256)(SN(__m256i) a, SN(__m256i) b) {
  SN(__m256i) r;
  for (int i = 0; i < 4; ++i) r.q[i] = a.q[i] ^ b.q[i];
  return r;
}
VF_INL SN(__m256i) SN(_mm256_slli_epi64)(SN(__m256i) a, int imm) {
  SN(__m256i) r;
  unsigned c = (unsigned)imm & 0xff;
  for (int i = 0; i < 4; ++i) {
    r.q[i] = c > 63 ? 0 : (a.q[i] << c);
    VF_NOWRAP_ASSERT(c <= 63 && (r.q[i] >> c) == a.q[i], "nowrap: _mm256_slli_epi64 shifts bits out");
  }
  return r;
}
VF_INL SN(__m256i) SN(_mm256_srli_epi64)(SN(__m256i) a, int imm) {
  SN(__m256i) r;
  unsigned c = (unsigned)imm & 0xff;
  for (int i = 0; i < 4; ++i) r.q[i] = c > 63 ? 0 : (a.q[i] >> c);
  return r;
}
VF_INL SN(__m256i) SN(_mm256_sllv_epi64)(SN(__m256i) a, SN(__m256i) cnt) {
  SN(__m256i) r;
  for (int i = 0; i < 4; ++i) r.q[i] = cnt.q[i] > 63 ? 0 : (a.q[i] << cnt.q[i]);
  return r;
}
VF_INL SN(__m256i) SN(_mm256_srlv_epi64)(SN(__m256i) a, SN(__m256i) cnt) {
  SN(__m256i) r;
  for (int i = 0; i < 4; ++i) r.q[i] = cnt.q[i] > 63 ? 0 : (a.q[i] >> cnt.q[i]);
  return r;
}
VF_INL uint32_t vf_get32(const SN(__m256i)* a, int j) { return (uint32_t)(a->q[j >> 1] >> (32 * (j & 1))); }
VF_INL void vf_set32(SN(__m256i)* a, int j, uint32_t v) {
  uint64_t m = 0xffffffffULL << (32 * (j & 1));
  a->q[j >> 1] = (a->q[j >> 1] & ~m) | ((uint64_t)v << (32 * (j & 1)));
}
VF_INL SN(__m256i) SN(_mm256_permutevar8x32_epi32)(SN(__m256i) a, SN(__m256i) idx) {
  SN(__m256i) r;
  for (int i = 0; i < 4; ++i) r.q[i] = 0;
  for (int j = 0; j < 8; ++j) vf_set32(&r, j, vf_get32(&a, (int)(vf_get32(&idx, j) & 7)));
  return r;
}
VF_INL SN(__m256i) SN(_mm256_unpacklo_epi32)(SN(__m256i) a, SN(__m256i) b) {
  SN(__m256i) r;
  for (int l = 0; l < 2; ++l) {
    r.q[2 * l] = (a.q[2 * l] & 0xffffffffULL) | (b.q[2 * l] << 32);
    r.q[2 * l + 1] = (a.q[2 * l] >> 32) | (b.q[2 * l] & 0xffffffff00000000ULL);
  }
  return r;
}
VF_INL SN(__m256i) SN(_mm256_unpackhi_epi32)(SN(__m256i) a, SN(__m256i) b) {
  SN(__m256i) r;
  for (int l = 0; l < 2; ++l) {
    r.q[2 * l] = (a.q[2 * l + 1] & 0xffffffffULL) | (b.q[2 * l + 1] << 32);
    r.q[2 * l + 1] = (a.q[2 * l + 1] >> 32) | (b.q[2 * l + 1] & 0xffffffff00000000ULL);
  }
  return r;
}
VF_INL SN(__m256i) SN(_mm256_unpacklo_epi64)(SN(__m256i) a, SN(__m256i) b) {
  SN(__m256i) r;
  r.q[0] = a.q[0];
  r.q[1] = b.q[0];
  r.q[2] = a.q[2];
  r.q[3] = b.q[2];
  return r;
}
VF_INL SN(__m256i) SN(_mm256_unpackhi_epi64)(SN(__m256i) a, SN(__m256i) b) {
  SN(__m256i) r;
  r.q[0] = a.q[1];
  r.q[1] = b.q[1];
  r.q[2] = a.q[3];
  r.q[3] = b.q[3];
  return r;
}
VF_INL SN(__m256i) SN(_mm256_permute2x128_si256)(SN(__m256i) a, SN(__m256i) b, int imm) {
  SN(__m256i) r;
  for (int h = 0; h < 2; ++h) {
    int c = (imm >> (4 * h)) & 0xf;
    for (int k = 0; k < 2; ++k) {
      uint64_t v;
      switch (c & 3) {
        case 0: v = a.q[k]; break;
        case 1: v = a.q[2 + k]; break;
        case 2: v = b.q[k]; break;
        default: v = b.q[2 + k]; break;
      }
      if (c & 8) v = 0;
      r.q[2 * h + k] = v;
    }
  }
  return r;
}
VF_INL SN(__m256i) SN(_mm256_castpd_si256)(SN(__m256d) a) {
  SN(__m256i) r;
  for (int i = 0; i < 4; ++i) r.q[i] = vf_d2u(a.d[i]);
  return r;
}
VF_INL SN(__m256d) SN(_mm256_castsi256_pd)(SN(__m256i) a) {
  SN(__m256d) r;
  for (int i = 0; i < 4; ++i) r.d[i] = vf_u2d(a.q[i]);
  return r;
}

/* ---------------------------------------------------------------- 128-bit */
VF_INL SN(__m128d) SN(_mm_loadu_pd)(const double* p) {
  SN(__m128d) r;
  r.d[0] = p[0];
  r.d[1] = p[1];
  return r;
}
VF_INL SN(__m128d) SN(_mm_load_pd)(const double* p) {
  VF_ALIGN_ASSERT(p, 16);
  SN(__m128d) r;
  r.d[0] = p[0];
  r.d[1] = p[1];
  return r;
}
VF_INL void SN(_mm_storeu_pd)(double* p, SN(__m128d) a) {
  p[0] = a.d[0];
  p[1] = a.d[1];
}
VF_INL SN(__m128d) SN(_mm_set1_pd)(double x) {
  SN(__m128d) r;
  r.d[0] = x;
  r.d[1] = x;
  return r;
}
VF_INL SN(__m128d) SN(_mm_add_pd)(SN(__m128d) a, SN(__m128d) b) {
  SN(__m128d) r;
  r.d[0] = a.d[0] + b.d[0];
  r.d[1] = a.d[1] + b.d[1];
  return r;
}
VF_INL SN(__m128d) SN(_mm_sub_pd)(SN(__m128d) a, SN(__m128d) b) {
  SN(__m128d) r;
  r.d[0] = a.d[0] - b.d[0];
  r.d[1] = a.d[1] - b.d[1];
  return r;
}
VF_INL SN(__m128d) SN(_mm_mul_pd)(SN(__m128d) a, SN(__m128d) b) {
  SN(__m128d) r;
  r.d[0] = a.d[0] * b.d[0];
  r.d[1] = a.d[1] * b.d[1];
  return r;
}
VF_INL SN(__m128d) SN(_mm_fmadd_pd)(SN(__m128d) a, SN(__m128d) b, SN(__m128d) c) {
  SN(__m128d) r;
  r.d[0] = fma(a.d[0], b.d[0], c.d[0]);
  r.d[1] = fma(a.d[1], b.d[1], c.d[1]);
  return r;
}
VF_INL SN(__m128d) SN(_mm_fmsub_pd)(SN(__m128d) a, SN(__m128d) b, SN(__m128d) c) {
  SN(__m128d) r;
  r.d[0] = fma(a.d[0], b.d[0], -c.d[0]);
  r.d[1] = fma(a.d[1], b.d[1], -c.d[1]);
  return r;
}
VF_INL SN(__m128d) SN(_mm_fmaddsub_pd)(SN(__m128d) a, SN(__m128d) b, SN(__m128d) c) {
  SN(__m128d) r;
  r.d[0] = fma(a.d[0], b.d[0], -c.d[0]);
  r.d[1] = fma(a.d[1], b.d[1], c.d[1]);
  return r;
}
VF_INL SN(__m128d) SN(_mm_xor_pd)(SN(__m128d) a, SN(__m128d) b) {
  SN(__m128d) r;
  r.d[0] = vf_u2d(vf_d2u(a.d[0]) ^ vf_d2u(b.d[0]));
  r.d[1] = vf_u2d(vf_d2u(a.d[1]) ^ vf_d2u(b.d[1]));
  return r;
}
VF_INL SN(__m128d) SN(_mm_shuffle_pd)(SN(__m128d) a, SN(__m128d) b, int imm) {
  SN(__m128d) r;
  r.d[0] = (imm & 1) ? a.d[1] : a.d[0];
  r.d[1] = (imm & 2) ? b.d[1] : b.d[0];
  return r;
}
VF_INL SN(__m128d) SN(_mm_permute_pd)(SN(__m128d) a, int imm) {
  SN(__m128d) r;
  r.d[0] = (imm & 1) ? a.d[1] : a.d[0];
  r.d[1] = (imm & 2) ? a.d[1] : a.d[0];
  return r;
}
VF_INL SN(__m128d) SN(_mm_unpacklo_pd)(SN(__m128d) a, SN(__m128d) b) {
  SN(__m128d) r;
  r.d[0] = a.d[0];
  r.d[1] = b.d[0];
  return r;
}
VF_INL SN(__m128d) SN(_mm_unpackhi_pd)(SN(__m128d) a, SN(__m128d) b) {
  SN(__m128d) r;
  r.d[0] = a.d[1];
  r.d[1] = b.d[1];
  return r;
}
VF_INL SN(__m128i) SN(_mm_loadu_si128)(const SN(__m128i)* p) {
  SN(__m128i) r;
  const uint64_t* q = (const uint64_t*)p;
  r.q[0] = q[0];
  r.q[1] = q[1];
  return r;
}
VF_INL void SN(_mm_storeu_si128)(SN(__m128i)* p, SN(__m128i) a) {
  uint64_t* q = (uint64_t*)p;
  q[0] = a.q[0];
  q[1] = a.q[1];
}
/* lane-width conversions and blends a plausible change could introduce.  _mm256_castsi128_si256 leaves the upper half undefined in the ISA; the shim
 * zeroes it (what gcc/clang generate) - code whose result depends on it is wrong anyway and is compared natively by the replay */
VF_INL SN(__m256i) SN(_mm256_castsi128_si256)(SN(__m128i) a) {
  SN(__m256i) r;
  r.q[0] = a.q[0];
  r.q[1] = a.q[1];
  r.q[2] = 0;
  r.q[3] = 0;
  return r;
}
VF_INL SN(__m128i) SN(_mm256_castsi256_si128)(SN(__m256i) a) {
  SN(__m128i) r;
  r.q[0] = a.q[0];
  r.q[1] = a.q[1];
  return r;
}
VF_INL SN(__m128i) SN(_mm256_extracti128_si256)(SN(__m256i) a, int imm) {
  SN(__m128i) r;
  r.q[0] = a.q[(imm & 1) ? 2 : 0];
  r.q[1] = a.q[(imm & 1) ? 3 : 1];
  return r;
}
VF_INL SN(__m256i) SN(_mm256_inserti128_si256)(SN(__m256i) a, SN(__m128i) b, int imm) {
  SN(__m256i) r = a;
  r.q[(imm & 1) ? 2 : 0] = b.q[0];
  r.q[(imm & 1) ? 3 : 1] = b.q[1];
  return r;
}
VF_INL SN(__m256i) SN(_mm256_blend_epi32)(SN(__m256i) a, SN(__m256i) b, int imm) {
  SN(__m256i) r;
  for (int i = 0; i < 4; ++i) {
    uint64_t lo = ((imm >> (2 * i)) & 1) ? (b.q[i] & 0xffffffffULL) : (a.q[i] & 0xffffffffULL);
    uint64_t hi = ((imm >> (2 * i + 1)) & 1) ? (b.q[i] >> 32) : (a.q[i] >> 32);
    r.q[i] = lo | (hi << 32);
  }
  return r;
}
VF_INL SN(__m128i) SN(_mm_set1_epi64x)(long long x) {
  SN(__m128i) r;
  r.q[0] = (uint64_t)x;
  r.q[1] = (uint64_t)x;
  return r;
}
VF_INL SN(__m128i) SN(_mm_set_epi64x)(long long e1, long long e0) {
  SN(__m128i) r;
  r.q[0] = (uint64_t)e0;
  r.q[1] = (uint64_t)e1;
  return r;
}
VF_INL SN(__m128i) SN(_mm_add_epi64)(SN(__m128i) a, SN(__m128i) b) {
  SN(__m128i) r;
  r.q[0] = a.q[0] + b.q[0];
  r.q[1] = a.q[1] + b.q[1];
  return r;
}
VF_INL SN(__m128i) SN(_mm_sub_epi64)(SN(__m128i) a, SN(__m128i) b) {
  SN(__m128i) r;
  r.q[0] = a.q[0] - b.q[0];
  r.q[1] = a.q[1] - b.q[1];
  return r;
}
VF_INL SN(__m128d) SN(_mm_castsi128_pd)(SN(__m128i) a) {
  SN(__m128d) r;
  r.d[0] = vf_u2d(a.q[0]);
  r.d[1] = vf_u2d(a.q[1]);
  return r;
}
VF_INL int SN(_mm_popcnt_u32)(unsigned int a) {
  int c = 0;
  for (int i = 0; i < 32; ++i) c += (a >> i) & 1;
  return c;
}

/* ---------------------------------------------------------------- 512-bit double (cplx_fft_avx512.c) */
VF_INL SN(__m512d) SN(_mm512_loadu_pd)(const void* p) {
  SN(__m512d) r;
  const double* q = (const double*)p;
  for (int i = 0; i < 8; ++i) r.d[i] = q[i];
  return r;
}
VF_INL void SN(_mm512_storeu_pd)(void* p, SN(__m512d) a) {
  double* q = (double*)p;
  for (int i = 0; i < 8; ++i) q[i] = a.d[i];
}
VF_INL SN(__m512d) SN(_mm512_add_pd)(SN(__m512d) a, SN(__m512d) b) {
  SN(__m512d) r;
  for (int i = 0; i < 8; ++i) r.d[i] = a.d[i] + b.d[i];
  return r;
}
VF_INL SN(__m512d) SN(_mm512_sub_pd)(SN(__m512d) a, SN(__m512d) b) {
  SN(__m512d) r;
  for (int i = 0; i < 8; ++i) r.d[i] = a.d[i] - b.d[i];
  return r;
}
VF_INL SN(__m512d) SN(_mm512_mul_pd)(SN(__m512d) a, SN(__m512d) b) {
  SN(__m512d) r;
  for (int i = 0; i < 8; ++i) r.d[i] = a.d[i] * b.d[i];
  return r;
}
VF_INL SN(__m512d) SN(_mm512_fmaddsub_pd)(SN(__m512d) a, SN(__m512d) b, SN(__m512d) c) {
  SN(__m512d) r;
  for (int i = 0; i < 8; ++i) r.d[i] = fma(a.d[i], b.d[i], (i & 1) ? c.d[i] : -c.d[i]);
  return r;
}
VF_INL SN(__m512d) SN(_mm512_shuffle_pd)(SN(__m512d) a, SN(__m512d) b, int imm) {
  SN(__m512d) r;
  for (int l = 0; l < 4; ++l) {
    r.d[2 * l] = ((imm >> (2 * l)) & 1) ? a.d[2 * l + 1] : a.d[2 * l];
    r.d[2 * l + 1] = ((imm >> (2 * l + 1)) & 1) ? b.d[2 * l + 1] : b.d[2 * l];
  }
  return r;
}
VF_INL SN(__m512d) SN(_mm512_broadcast_f64x4)(SN(__m256d) a) {
  SN(__m512d) r;
  for (int i = 0; i < 8; ++i) r.d[i] = a.d[i & 3];
  return r;
}

#endif /* VF_SHIM_IMMINTRIN_H */
