/* C10 (last clause): q120 block extract / save are mutually inverse copies.  Bit-precise; buffers exactly sized; everything symbolic.
 *   -DNNQ=<coefficients per vector: 2,4,8>  -DBLK=<block index < NNQ/2>  -DNROWS=<rows of the contiguous form> */
#include "common.h"
#include "q120/q120_arithmetic.h"
#ifndef NNQ
#define NNQ 4
#endif
#ifndef BLK
#define BLK 1
#endif
#ifndef NROWS
#define NROWS 2
#endif

void h_q120blk(void) {
  const uint64_t VW = 4 * (uint64_t)NNQ; /* words of one q120b / q120c vector */
  /* extract from one vector (b and c layouts: same copy) */
  uint64_t* src = vf_alloc_words(VW);
  uint64_t* src0 = vf_snapshot(src, VW);
  uint64_t* d1 = vf_alloc_words(8);
  uint64_t* d2 = vf_alloc_words(8);
  q120x2_extract_1blk_from_q120b_ref(NNQ, BLK, (q120x2b*)d1, (const q120b*)src);
  q120x2_extract_1blk_from_q120c_ref(NNQ, BLK, (q120x2c*)d2, (const q120c*)src);
  for (unsigned i = 0; i < 8; ++i) VF_ASSERT(d1[i] == src0[8 * BLK + i] && d2[i] == src0[8 * BLK + i], "extracted block = words 8*blk..8*blk+7 of the vector");
  for (uint64_t i = 0; i < VW; ++i) VF_ASSERT(src[i] == src0[i], "source vector untouched");
  /* extract the same block of every row of a contiguous array of vectors */
  uint64_t* rows = vf_alloc_words((uint64_t)NROWS * VW + (NROWS ? 0 : 1));
  uint64_t* dr = vf_alloc_words(8 * (uint64_t)NROWS + (NROWS ? 0 : 1));
  uint64_t* dr0 = vf_snapshot(dr, 8 * (uint64_t)NROWS + (NROWS ? 0 : 1));
  q120x2_extract_1blk_from_contiguous_q120b_ref(NNQ, NROWS, BLK, (q120x2b*)dr, (const q120b*)rows);
  for (unsigned r = 0; r < NROWS; ++r)
    for (unsigned i = 0; i < 8; ++i) VF_ASSERT(dr[8 * r + i] == rows[VW * r + 8 * BLK + i], "row r of the output = block blk of row r");
  if (!NROWS) VF_ASSERT(dr[0] == dr0[0], "no row: nothing written");
  /* save: only the 8 words of block blk change, and extract(save(x)) == x */
  uint64_t* dest = vf_alloc_words(VW);
  uint64_t* dest0 = vf_snapshot(dest, VW);
  uint64_t* blkv = vf_alloc_words(8);
  uint64_t* blkv0 = vf_snapshot(blkv, 8);
  q120x2b_save_1blk_to_q120b_ref(NNQ, BLK, (q120b*)dest, (const q120x2b*)blkv);
  for (uint64_t i = 0; i < VW; ++i)
    VF_ASSERT(dest[i] == ((i >= 8 * BLK && i < 8 * BLK + 8) ? blkv0[i - 8 * BLK] : dest0[i]), "save writes exactly block blk");
  for (unsigned i = 0; i < 8; ++i) VF_ASSERT(blkv[i] == blkv0[i], "saved block untouched");
  uint64_t* back = vf_alloc_words(8);
  q120x2_extract_1blk_from_q120b_ref(NNQ, BLK, (q120x2b*)back, (const q120b*)dest);
  for (unsigned i = 0; i < 8; ++i) VF_ASSERT(back[i] == blkv0[i], "extract after save returns the saved block");
  VF_REACH();
}
