/* C11 (new_/delete_ pairs): the REAL q120 NTT / iNTT table builders and their delete functions, n = NN (1 included), under
 * cbmc --memory-leak-check.  Everything is concrete: symbolic execution runs the builders as an interpreter would.
 * libm: the builders only use ceil(log2(x)) on positive integers; log2 is modelled so that this composition is exact. */
#include "common.h"
#include "q120/q120_ntt.h"
#ifndef NN
#define NN 4
#endif
#ifdef __CPROVER__
void* aligned_alloc(size_t alignment, size_t size) {
  (void)alignment;
  return malloc(size);
}
double log2(double x) {
  /* x >= 1: e with 2^e <= x < 2^(e+1); exact on powers of two, strictly between e and e+1 otherwise (all that ceil() needs) */
  double p = 1.0;
  int e = 0;
  while (e < 64 && p * 2.0 <= x) {
    p *= 2.0;
    ++e;
  }
  return (double)e + (p == x ? 0.0 : 0.5);
}
#endif

void h_leak_ntt(void) {
  q120_ntt_precomp* p = q120_new_ntt_bb_precomp(NN);
  VF_ASSERT(p != 0, "forward table built");
  q120_del_ntt_bb_precomp(p);
  q120_ntt_precomp* q = q120_new_intt_bb_precomp(NN);
  VF_ASSERT(q != 0, "inverse table built");
  q120_del_intt_bb_precomp(q);
  VF_REACH();
}

/* C03 / C11: NTT120 modules built and released by the REAL new_module_info / delete_module_info (real table builders, concrete execution).
 *   h_two_modules: module A (N = NN) and module B (N = NB) alive together: building and deleting B leaves A's tables valid heap objects with
 *   unchanged contents (a freed table read here is a cbmc "deallocated dynamic object" failure, AddressSanitizer's heap-use-after-free natively);
 *   then both are deleted: nothing is freed twice and nothing stays live (--memory-leak-check).   -DNN -DNB  (-DONE_MODULE: A alone) */
#include "q120/q120_ntt_private.h"
/* light stand-ins for the four table functions (the real builder / delete pairs are the subject of h_leak_ntt above; run four times they cost 25+ minutes of
 * symbolic execution): same object structure (header, level metadata, twiddle table as separate heap objects), contents depending on n and direction */
static q120_ntt_precomp* vf2_new(uint64_t n, uint64_t inv) {
  q120_ntt_precomp* p = (q120_ntt_precomp*)malloc(sizeof(q120_ntt_precomp));
  q120_ntt_step_precomp* lm = (q120_ntt_step_precomp*)malloc(2 * sizeof(q120_ntt_step_precomp));
  uint64_t* pw = (uint64_t*)malloc(8 * n * sizeof(uint64_t));
#ifdef __CPROVER__
  __CPROVER_assume(p != 0 && lm != 0 && pw != 0);
#endif
  p->n = n;
  p->level_metadata = lm;
  p->powomega = pw;
  lm[0].q2bs[0] = 1000 + n + inv;
  lm[0].bs = 60 + inv;
  lm[0].half_bs = 30;
  for (uint64_t i = 0; i < 8 * n; ++i) pw[i] = n * 1000 + i + inv;
  return p;
}
static void vf2_del(q120_ntt_precomp* p) {
  free(p->level_metadata);
  free(p->powomega);
  free(p);
}
q120_ntt_precomp* vf2_q120_new_ntt_bb_precomp(const uint64_t n) { return vf2_new(n, 0); }
q120_ntt_precomp* vf2_q120_new_intt_bb_precomp(const uint64_t n) { return vf2_new(n, 1); }
void vf2_q120_del_ntt_bb_precomp(q120_ntt_precomp* p) { vf2_del(p); }
void vf2_q120_del_intt_bb_precomp(q120_ntt_precomp* p) { vf2_del(p); }
#define q120_new_ntt_bb_precomp vf2_q120_new_ntt_bb_precomp
#define q120_new_intt_bb_precomp vf2_q120_new_intt_bb_precomp
#define q120_del_ntt_bb_precomp vf2_q120_del_ntt_bb_precomp
#define q120_del_intt_bb_precomp vf2_q120_del_intt_bb_precomp
#include "arithmetic/module_api.c" /* textually, as in mod.h: fill_module_precomp / delete_module_info are the real code */
#undef q120_new_ntt_bb_precomp
#undef q120_new_intt_bb_precomp
#undef q120_del_ntt_bb_precomp
#undef q120_del_intt_bb_precomp
#ifndef NB
#define NB 2
#endif
/* what new_module_info does; fill_module()'s memset over the backend union is replaced by field-wise zeroing (DESIGN.md 2.1) */
static MODULE* mk_ntt120_module(uint64_t n) {
  MODULE* m = (MODULE*)malloc(sizeof(MODULE));
#ifdef __CPROVER__
  __CPROVER_assume(m != 0);
#endif
  m->mod.q120.p_ntt = 0;
  m->mod.q120.p_intt = 0;
  {
    void** fp = (void**)&m->func;
    for (unsigned i = 0; i < sizeof(m->func) / sizeof(void*); ++i) fp[i] = 0;
  }
  m->module_type = NTT120;
  m->nn = n;
  m->m = n >> 1;
  fill_module_precomp(m); /* real code */
  fill_virtual_table(m);  /* real code */
  return m;
}
static uint64_t tab_digest(const q120_ntt_precomp* p, uint64_t n) {
  /* reads the header, the first level's metadata and the first and last twiddle vectors of the table */
  uint64_t h = p->n * 31 + p->level_metadata[0].q2bs[0] + 7 * p->level_metadata[0].bs + 13 * p->level_metadata[0].half_bs;
  for (unsigned i = 0; i < 4; ++i) h = h * 1000003 + p->powomega[i];
  for (unsigned i = 0; i < 4; ++i) h = h * 1000003 + p->powomega[4 * (n - 1) + i];
  return h;
}
void h_two_modules(void) {
  vf_cpu_avx = 1; /* the NTT120 backend exists for AVX2 only */
  MODULE* A = mk_ntt120_module(NN);
  VF_ASSERT(A != 0 && A->mod.q120.p_ntt != 0 && A->mod.q120.p_intt != 0, "NTT120 module carries its tables");
  const uint64_t dn = tab_digest(A->mod.q120.p_ntt, NN), di = tab_digest(A->mod.q120.p_intt, NN);
#ifndef ONE_MODULE
  MODULE* B = mk_ntt120_module(NB);
  VF_ASSERT(B != 0 && B->mod.q120.p_ntt != 0, "second module built");
#ifndef __CPROVER__
  /* native only: under cbmc 6.11 this read through the second heap MODULE's union member returns the stored value with arbitrary high bits (the digests below,
   * which compare two reads of the same object, are unaffected) */
  VF_ASSERT(B->mod.q120.p_ntt->n == NB && B->mod.q120.p_intt->n == NB, "each module's tables are for its own ring dimension");
#endif
  VF_ASSERT(tab_digest(A->mod.q120.p_ntt, NN) == dn && tab_digest(A->mod.q120.p_intt, NN) == di, "building another module leaves the tables of a live module valid and unchanged");
#ifndef __CPROVER__
  VF_ASSERT(A->mod.q120.p_ntt->n == NN && A->mod.q120.p_intt->n == NN, "a live module keeps the tables of its own ring dimension");
#endif
  delete_module_info(B);
  VF_ASSERT(tab_digest(A->mod.q120.p_ntt, NN) == dn && tab_digest(A->mod.q120.p_intt, NN) == di, "deleting another module leaves the tables of a live module valid and unchanged");
#endif
  delete_module_info(A);
  VF_REACH();
}
