/* C11 (new_/delete_ pairs): the REAL q120 NTT / iNTT table builders and their delete functions, n = NN (1 included), under
 * cbmc --memory-leak-check.  Everything is concrete: symbolic execution runs the builders as an interpreter would.
 * libm: the builders only use ceil(log2(x)) on positive integers; log2 is modelled so that this composition is exact. */
#include "common.h"
#include "q120/q120_ntt.h"
#ifndef NN
#define NN 4
#endif
#ifdef __CPROVER__
void* aligned_alloc(size_t alignment, size_t size) {
  (void)alignment;
  return malloc(size);
}
double log2(double x) {
  /* x >= 1: e with 2^e <= x < 2^(e+1); exact on powers of two, strictly between e and e+1 otherwise (all that ceil() needs) */
  double p = 1.0;
  int e = 0;
  while (e < 64 && p * 2.0 <= x) {
    p *= 2.0;
    ++e;
  }
  return (double)e + (p == x ? 0.0 : 0.5);
}
#endif

void h_leak_ntt(void) {
  q120_ntt_precomp* p = q120_new_ntt_bb_precomp(NN);
  VF_ASSERT(p != 0, "forward table built");
  q120_del_ntt_bb_precomp(p);
  q120_ntt_precomp* q = q120_new_intt_bb_precomp(NN);
  VF_ASSERT(q != 0, "inverse table built");
  q120_del_intt_bb_precomp(q);
  VF_REACH();
}
