/* C06 (and the FFT part of C07): reim / cplx FFT and iFFT on the real tables.
 *   -DKIND= 0 reim fft 1 reim ifft 2 cplx fft 3 cplx ifft   -DM=<m>  -DAVX=0|1
 * Under CBMC: inputs nondeterministic, outputs copied to VF_OUT for the algebraic analysis
 * (vcalg); the bit-precise run checks memory safety and that the tables are untouched.
 * Natively (replay): the same call is compared against a long-double evaluation of the
 * mathematical transform in the documented order, with the property's own norm-wise bound. */
#include "fftmod.h"
#ifndef KIND
#define KIND 0
#endif
#ifndef M
#define M 4
#endif

double VF_INP[2 * M];
double VF_OUT[2 * M];

#ifndef __CPROVER__
#include <math.h>
static unsigned bitrev(unsigned x, unsigned bits) {
  unsigned r = 0;
  for (unsigned i = 0; i < bits; ++i) r |= ((x >> i) & 1u) << (bits - 1 - i);
  return r;
}
static void oracle(const double* in, const double* out) {
  unsigned lg = 0;
  while ((1u << lg) < M) ++lg;
  long double err2 = 0, ref2 = 0;
  const long double PI = 3.14159265358979323846264338327950288L;
  for (unsigned a = 0; a < M; ++a) {
    long double sr = 0, si = 0;
    for (unsigned b = 0; b < M; ++b) {
      /* fft: output a = sum_b x_b w^(e_a*b);  ifft: output a = sum_b y_b w^(-e_b*a) */
      unsigned long e = (KIND % 2 == 0) ? (unsigned long)(1 + 4 * bitrev(a, lg)) * b : (unsigned long)(1 + 4 * bitrev(b, lg)) * a;
      long double ang = PI * (long double)(e % (4ul * M)) / (2.0L * M);
      long double c = cosl(ang), s = (KIND % 2 == 0) ? sinl(ang) : -sinl(ang);
      long double xr = (KIND < 2) ? in[b] : in[2 * b], xi = (KIND < 2) ? in[M + b] : in[2 * b + 1];
      sr += xr * c - xi * s;
      si += xr * s + xi * c;
    }
    long double orr = (KIND < 2) ? out[a] : out[2 * a], oi = (KIND < 2) ? out[M + a] : out[2 * a + 1];
    err2 += (orr - sr) * (orr - sr) + (oi - si) * (oi - si);
    ref2 += sr * sr + si * si;
  }
  long double bound = 8.0L * (lg + 1) * 1.1102230246251565404e-16L * sqrtl(ref2);
  printf("oracle: |err|_2=%Lg bound=%Lg\n", sqrtl(err2), bound);
  VF_ASSERT(sqrtl(err2) <= bound, "transform equals the mathematical one within 8*log2(2m)*2^-53 (2-norm)");
}
#endif

void h_fft(void) {
  double* d = (double*)malloc(2 * M * sizeof(double));
#ifdef __CPROVER__
  __CPROVER_assume(d != 0);
#endif
  for (unsigned i = 0; i < 2 * M; ++i) {
    d[i] = vf_f64();
    VF_INP[i] = d[i];
  }
#if KIND < 2
  uint64_t omg0[2 * M < 8 ? 8 : 2 * M];
#else
  uint64_t omg0[4 * M < 8 ? 8 : 4 * M];
#endif
#if KIND == 0
  VF_REIM_FFT_PRECOMP(p, M);
  memcpy(omg0, p.powomegas, sizeof omg0);
  reim_fft(&p, d);
#elif KIND == 1
  VF_REIM_IFFT_PRECOMP(p, M);
  memcpy(omg0, p.powomegas, sizeof omg0);
  reim_ifft(&p, d);
#elif KIND == 2
  VF_CPLX_FFT_PRECOMP(p, M);
  memcpy(omg0, p.powomegas, sizeof omg0);
  cplx_fft(&p, d);
#else
  VF_CPLX_IFFT_PRECOMP(p, M);
  memcpy(omg0, p.powomegas, sizeof omg0);
  cplx_ifft(&p, d);
#endif
  for (unsigned i = 0; i < 2 * M; ++i) VF_OUT[i] = d[i];
  for (unsigned i = 0; i < sizeof omg0 / 8; ++i) VF_ASSERT(omg0[i] == ((const uint64_t*)p.powomegas)[i], "precomputed table is read-only");
  VF_ASSERT(p.m == M, "precomp object untouched");
#ifndef __CPROVER__
  oracle(VF_INP, VF_OUT);
#endif
  VF_REACH();
}
