/* Full MODULE objects for DFT-space entry points: virtual table from the real fill_virtual_table (mod.h), precomputed
 * objects built from the dumped tables / by the real init_* functions, never by memset + builders (DESIGN.md 2.1).
 * -DNN=<ring dimension>  (m = NN/2)   -DAVX=0|1 */
#ifndef VF_APIMOD_H
#define VF_APIMOD_H
#include "mod.h"
#include "fftmod.h"

#ifndef NN
#define NN 8
#endif
#define MM (NN / 2)

void* init_reim_from_znx64_precomp(REIM_FROM_ZNX64_PRECOMP* const res, uint32_t m, uint32_t log2bound);
void* init_reim_to_znx64_precomp(REIM_TO_ZNX64_PRECOMP* const res, uint32_t m, double divisor, uint32_t log2bound);

typedef struct {
  MODULE mod;
  REIM_FFT_PRECOMP fft;
  REIM_IFFT_PRECOMP ifft;
  REIM_FFTVEC_MUL_PRECOMP mul;
  REIM_FFTVEC_ADDMUL_PRECOMP addmul;
  REIM_FROM_ZNX64_PRECOMP conv;
  REIM_TO_ZNX64_PRECOMP toznx;
  q120_ntt_precomp ntt, intt;
} vf_fullmod;

static void vf_fullmod_init_fft64(vf_fullmod* f, int avx) {
  vf_cpu_avx = avx;
  f->mod.module_type = FFT64;
  f->mod.nn = NN;
  f->mod.m = MM;
  f->fft.function = VFT_FUNC(REIM_FFT, MM);
  f->fft.m = MM;
  f->fft.buf_size = 0;
  f->fft.powomegas = (double*)VFT_OMG(REIM_FFT, MM);
  f->fft.aligned_buffers = 0;
  f->ifft.function = VFT_FUNC(REIM_IFFT, MM);
  f->ifft.m = MM;
  f->ifft.buf_size = 0;
  f->ifft.powomegas = (double*)VFT_OMG(REIM_IFFT, MM);
  f->ifft.aligned_buffers = 0;
  f->mul.function = VFT_FUNC(REIM_MUL, MM);
  f->mul.m = MM;
  f->addmul.function = VFT_FUNC(REIM_ADDMUL, MM);
  f->addmul.m = MM;
  init_reim_from_znx64_precomp(&f->conv, MM, 50);          /* as fill_fft64_precomp does */
  init_reim_to_znx64_precomp(&f->toznx, MM, (double)MM, 63);
  f->mod.mod.fft64.p_fft = &f->fft;
  f->mod.mod.fft64.mul_fft = &f->mul;
  f->mod.mod.fft64.p_conv = &f->conv;
  f->mod.mod.fft64.p_reim_to_znx = &f->toznx;
  f->mod.mod.fft64.p_ifft = &f->ifft;
  f->mod.mod.fft64.p_addmul = &f->addmul;
  fill_virtual_table(&f->mod);
}

#define VF_CATN_(a, b) a##b
#define VF_CATN(a, b) VF_CATN_(a, b)
static void vf_fullmod_init_ntt120(vf_fullmod* f) {
  vf_cpu_avx = 1; /* the library has NTT120 entry points for AVX2 only */
  f->mod.module_type = NTT120;
  f->mod.nn = NN;
  f->mod.m = MM;
  f->ntt.n = NN;
  f->ntt.level_metadata = (q120_ntt_step_precomp*)VF_CATN(VFT_NTT_META_, NN);
  f->ntt.powomega = (uint64_t*)VF_CATN(VFT_NTT_POW_, NN);
  f->ntt.reduc_metadata = VF_CATN(VFT_NTT_REDUC_, NN);
  f->ntt.input_bit_size = VF_CATN(VFT_NTT_INBITS_, NN);
  f->ntt.output_bit_size = VF_CATN(VFT_NTT_OUTBITS_, NN);
  f->intt.n = NN;
  f->intt.level_metadata = (q120_ntt_step_precomp*)VF_CATN(VFT_INTT_META_, NN);
  f->intt.powomega = (uint64_t*)VF_CATN(VFT_INTT_POW_, NN);
  f->intt.reduc_metadata = VF_CATN(VFT_INTT_REDUC_, NN);
  f->intt.input_bit_size = VF_CATN(VFT_INTT_INBITS_, NN);
  f->intt.output_bit_size = VF_CATN(VFT_INTT_OUTBITS_, NN);
  f->mod.mod.q120.p_ntt = &f->ntt;
  f->mod.mod.q120.p_intt = &f->intt;
  fill_virtual_table(&f->mod);
}
#endif
