/* Full MODULE objects for DFT-space entry points: virtual table from the real fill_virtual_table (mod.h), precomputed
 * objects built from the dumped tables / by the real init_* functions, never by memset + builders (DESIGN.md 2.1).
 * -DNN=<ring dimension>  (m = NN/2)   -DAVX=0|1 */
#ifndef VF_APIMOD_H
#define VF_APIMOD_H
#define VF_HAVE_TABLE_BUILDERS
#include "mod.h"
#include "fftmod.h"

#ifndef NN
#define NN 8
#endif
#ifndef MM
#error "pass -DMM=<NN/2> as a literal (it is token-pasted into table names)"
#endif
#define VF_CATN_(a, b) a##b
#define VF_CATN(a, b) VF_CATN_(a, b)

typedef struct {
  MODULE mod;
} vf_fullmod;

/* ---- the redirected table builders: objects from the dumped tables of the working tree (sizes as in the real builders) */
REIM_FFT_PRECOMP* vf_new_reim_fft_precomp(uint32_t m, uint32_t nb) {
  (void)nb;
  VF_ASSERT(m == MM, "fft table requested for the module's m");
  REIM_FFT_PRECOMP* p = (REIM_FFT_PRECOMP*)malloc(sizeof(REIM_FFT_PRECOMP));
#ifdef __CPROVER__
  __CPROVER_assume(p != 0);
#endif
  p->function = VFT_FUNC(REIM_FFT, MM);
  p->m = MM;
  p->buf_size = 0;
  p->powomegas = (double*)VFT_OMG(REIM_FFT, MM);
  p->aligned_buffers = 0;
  return p;
}
REIM_IFFT_PRECOMP* vf_new_reim_ifft_precomp(uint32_t m, uint32_t nb) {
  (void)nb;
  VF_ASSERT(m == MM, "ifft table requested for the module's m");
  REIM_IFFT_PRECOMP* p = (REIM_IFFT_PRECOMP*)malloc(sizeof(REIM_IFFT_PRECOMP));
#ifdef __CPROVER__
  __CPROVER_assume(p != 0);
#endif
  p->function = VFT_FUNC(REIM_IFFT, MM);
  p->m = MM;
  p->buf_size = 0;
  p->powomegas = (double*)VFT_OMG(REIM_IFFT, MM);
  p->aligned_buffers = 0;
  return p;
}
static q120_ntt_precomp* vf_mk_ntt(int inverse) {
  q120_ntt_precomp* p = (q120_ntt_precomp*)malloc(sizeof(q120_ntt_precomp));
#ifdef __CPROVER__
  __CPROVER_assume(p != 0);
#endif
  p->n = NN;
  if (!inverse) {
    p->level_metadata = (q120_ntt_step_precomp*)VF_CATN(VFT_NTT_META_, NN);
    p->powomega = (uint64_t*)VF_CATN(VFT_NTT_POW_, NN);
    p->reduc_metadata = VF_CATN(VFT_NTT_REDUC_, NN);
    p->input_bit_size = VF_CATN(VFT_NTT_INBITS_, NN);
    p->output_bit_size = VF_CATN(VFT_NTT_OUTBITS_, NN);
  } else {
    p->level_metadata = (q120_ntt_step_precomp*)VF_CATN(VFT_INTT_META_, NN);
    p->powomega = (uint64_t*)VF_CATN(VFT_INTT_POW_, NN);
    p->reduc_metadata = VF_CATN(VFT_INTT_REDUC_, NN);
    p->input_bit_size = VF_CATN(VFT_INTT_INBITS_, NN);
    p->output_bit_size = VF_CATN(VFT_INTT_OUTBITS_, NN);
  }
  return p;
}
q120_ntt_precomp* vf_q120_new_ntt_bb_precomp(const uint64_t n) {
  VF_ASSERT(n == NN, "ntt table requested for the module's N");
  return vf_mk_ntt(0);
}
q120_ntt_precomp* vf_q120_new_intt_bb_precomp(const uint64_t n) {
  VF_ASSERT(n == NN, "intt table requested for the module's N");
  return vf_mk_ntt(1);
}

/* what new_module_info does, minus malloc of the MODULE itself and with the memset replaced by a zero initialiser */
static void vf_fullmod_init(vf_fullmod* f, MODULE_TYPE mt, int avx) {
  vf_cpu_avx = avx;
  /* fill_module starts with memset(module,0): reproduced field by field (a block write over the union makes the symbolic
   * executor lose the table pointers, DESIGN.md 2.1) */
  if (mt == FFT64) { /* only the active member of the backend union is touched (cbmc's SMT back end aborts on mixed-member updates) */
    f->mod.mod.fft64.p_fft = 0;
    f->mod.mod.fft64.mul_fft = 0;
    f->mod.mod.fft64.p_conv = 0;
    f->mod.mod.fft64.p_reim_to_znx = 0;
    f->mod.mod.fft64.p_ifft = 0;
    f->mod.mod.fft64.p_addmul = 0;
  } else {
    f->mod.mod.q120.p_ntt = 0;
    f->mod.mod.q120.p_intt = 0;
  }
  {
    void** fp = (void**)&f->mod.func;
    for (unsigned i = 0; i < sizeof(f->mod.func) / sizeof(void*); ++i) fp[i] = 0;
  }
  f->mod.module_type = mt;
  f->mod.nn = NN;
  f->mod.m = NN >> 1;
  fill_module_precomp(&f->mod); /* real code */
  fill_virtual_table(&f->mod);  /* real code */
}
static void vf_fullmod_init_fft64(vf_fullmod* f, int avx) { vf_fullmod_init(f, FFT64, avx); }
static void vf_fullmod_init_ntt120(vf_fullmod* f) { vf_fullmod_init(f, NTT120, 1); /* the library has NTT120 entry points for AVX2 only */ }

/* frame condition helper: word-wise snapshots of the module and of every object it points to */
typedef struct {
  uint64_t mod[sizeof(MODULE) / 8];
  uint64_t obj[6][8];
  uint64_t ntt[2][sizeof(q120_ntt_precomp) / 8];
} vf_modsnap;
static void vf_words(uint64_t* dst, const void* src, unsigned n) {
  const uint64_t* p = (const uint64_t*)src;
  for (unsigned i = 0; i < n; ++i) dst[i] = p[i];
}
static void vf_words_same(const uint64_t* snap, const void* now, unsigned n) {
  const uint64_t* p = (const uint64_t*)now;
  for (unsigned i = 0; i < n; ++i) VF_ASSERT(p[i] == snap[i], "MODULE / precomputed object is immutable (bit-for-bit)");
}
#define VF_OBJS(m)                                                                                                                        \
  {(m)->mod.fft64.p_fft, (m)->mod.fft64.p_ifft, (m)->mod.fft64.mul_fft, (m)->mod.fft64.p_addmul, (m)->mod.fft64.p_conv, (m)->mod.fft64.p_reim_to_znx}
static const unsigned VF_OBJ_WORDS[6] = {sizeof(REIM_FFT_PRECOMP) / 8, sizeof(REIM_IFFT_PRECOMP) / 8, sizeof(REIM_FFTVEC_MUL_PRECOMP) / 8,
                                         sizeof(REIM_FFTVEC_ADDMUL_PRECOMP) / 8, sizeof(struct reim_from_znx64_precomp) / 8, sizeof(struct reim_to_znx64_precomp) / 8};
static void vf_snap(vf_modsnap* s, const MODULE* m) {
  vf_words(s->mod, m, sizeof(MODULE) / 8);
  if (m->module_type == FFT64) {
    const void* objs[6] = VF_OBJS(m);
    for (unsigned k = 0; k < 6; ++k)
      if (objs[k]) vf_words(s->obj[k], objs[k], VF_OBJ_WORDS[k]);
  } else {
    vf_words(s->ntt[0], m->mod.q120.p_ntt, sizeof(q120_ntt_precomp) / 8);
    vf_words(s->ntt[1], m->mod.q120.p_intt, sizeof(q120_ntt_precomp) / 8);
  }
}
static void vf_check_frame(const vf_modsnap* s, const MODULE* m) {
  vf_words_same(s->mod, m, sizeof(MODULE) / 8);
  if (m->module_type == FFT64) {
    const void* objs[6] = VF_OBJS(m);
    for (unsigned k = 0; k < 6; ++k)
      if (objs[k]) vf_words_same(s->obj[k], objs[k], VF_OBJ_WORDS[k]);
  } else {
    vf_words_same(s->ntt[0], m->mod.q120.p_ntt, sizeof(q120_ntt_precomp) / 8);
    vf_words_same(s->ntt[1], m->mod.q120.p_intt, sizeof(q120_ntt_precomp) / 8);
  }
}
#endif
