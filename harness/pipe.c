/* C16: pipelines of public API calls against the ring expression they denote.
 *   h_pipe_int  (bit-precise): rotate -> automorphism -> add -> normalize_base2k on 2-limb vectors, N = NN, p1 / p2 symbolic
 *   h_pipe_big  (bit-precise): add_small2 -> big rotate -> big (range) normalize with fewer / as many / more output limbs
 *   h_pipe_ntt  (exported, integer domain): NTT120 vec_znx_dft -> vec_znx_idft[_tmp_a] -> 128-bit result equals the input
 *     -DNN -DMM -DK -DNEGMASK (sign class of each coefficient) -DTMPA -DRSZ -DASZ */
#include "apimod.h"

#ifndef K
#define K 16
#endif
#ifndef NEGMASK
#define NEGMASK 0
#endif
#ifndef RSZ
#define RSZ 1
#endif
#ifndef ASZ
#define ASZ 1
#endif
typedef __int128 i128;

static int64_t spec_digit(i128 t) {
  i128 m = ((i128)1 << K);
  i128 r = t & (m - 1);
  if (r >= (m >> 1)) r -= m;
  return (int64_t)r;
}

void h_pipe_int(void) {
  MODULE mod;
  vf_module_init_notables(&mod, NN, FFT64, AVX);
  const uint64_t sl = NN + 1;
  int64_t* x = (int64_t*)vf_alloc_words_raw(vf_extent(2, sl, NN));
  int64_t* y = (int64_t*)vf_alloc_words_raw(vf_extent(2, NN, NN));
  for (uint64_t i = 0; i < vf_extent(2, sl, NN); ++i) {
    x[i] = vf_i64();
    VF_ASSUME(x[i] >= -(INT64_C(1) << 60) && x[i] <= (INT64_C(1) << 60));
  }
  for (uint64_t i = 0; i < 2 * NN; ++i) {
    y[i] = vf_i64();
    VF_ASSUME(y[i] >= -(INT64_C(1) << 60) && y[i] <= (INT64_C(1) << 60));
  }
  int64_t p1 = vf_i64(), p2 = vf_i64();
  VF_ASSUME(p2 & 1);
  int64_t* t1 = (int64_t*)vf_alloc_words(2 * NN);
  int64_t* t2 = (int64_t*)vf_alloc_words(2 * NN);
  int64_t* t3 = (int64_t*)vf_alloc_words(2 * NN);
  int64_t* r = (int64_t*)vf_alloc_words(2 * NN);
  uint8_t* tmp = (uint8_t*)vf_alloc_words(vec_znx_normalize_base2k_tmp_bytes(&mod) / 8);
  vec_znx_rotate(&mod, p1, t1, 2, NN, x, 2, sl);
  vec_znx_automorphism(&mod, p2, t2, 2, NN, t1, 2, NN);
  vec_znx_add(&mod, t3, 2, NN, t2, 2, NN, y, 2, NN);
  vec_znx_normalize_base2k(&mod, K, r, 2, NN, t3, 2, NN, tmp);
  /* the ring expression: e = sigma_p2(x * X^p1) + y, limb-wise, then balanced base-2^K digits (limb 1 is the least significant) */
  i128 e[2][NN];
  for (unsigned l = 0; l < 2; ++l) {
    i128 rot[NN];
    for (uint64_t j = 0; j < NN; ++j) {
      uint64_t d = ((uint64_t)j + (uint64_t)p1) & (2 * NN - 1);
      if (d < NN)
        rot[d] = x[l * sl + j];
      else
        rot[d - NN] = -(i128)x[l * sl + j];
    }
    for (uint64_t j = 0; j < NN; ++j) {
      uint64_t d = ((uint64_t)j * (uint64_t)p2) & (2 * NN - 1);
      if (d < NN)
        e[l][d] = rot[j];
      else
        e[l][d - NN] = -rot[j];
    }
    for (uint64_t j = 0; j < NN; ++j) e[l][j] += y[l * NN + j];
  }
  for (uint64_t j = 0; j < NN; ++j) {
    int64_t d1 = spec_digit(e[1][j]);
    i128 c = (e[1][j] - d1) >> K;
    int64_t d0 = spec_digit(e[0][j] + c);
    VF_ASSERT(r[NN + j] == d1 && r[j] == d0, "pipeline rotate->automorphism->add->normalize equals the digits of the ring expression");
  }
  VF_REACH();
}

/* integer pipeline through the big-coefficient space: small + small -> big (3 limbs), rotate in big space, then big normalization into
 * RSZB output limbs (fewer, as many, or more than the big vector has): the digits of the ring expression (x + y) * X^p1, carries from the
 * limbs that have no counterpart in the output included.   -DRSZB=<output limbs>  -DRANGE (range variant, begin 0, step 1) */
#ifndef RSZB
#define RSZB 2
#endif
void h_pipe_big(void) {
  MODULE mod;
  vf_module_init_notables(&mod, NN, FFT64, AVX);
  int64_t* x = (int64_t*)vf_alloc_words_raw(3 * NN);
  int64_t* y = (int64_t*)vf_alloc_words_raw(3 * NN);
  for (uint64_t i = 0; i < 3 * NN; ++i) {
    x[i] = vf_i64();
    y[i] = vf_i64();
    VF_ASSUME(x[i] >= -(INT64_C(1) << 60) && x[i] <= (INT64_C(1) << 60));
    VF_ASSUME(y[i] >= -(INT64_C(1) << 60) && y[i] <= (INT64_C(1) << 60));
  }
  const int64_t p1 = vf_i64();
  int64_t* big = (int64_t*)vf_alloc_words(3 * NN);
  int64_t* big2 = (int64_t*)vf_alloc_words(3 * NN);
  int64_t* r = (int64_t*)vf_alloc_words((uint64_t)(RSZB ? RSZB : 1) * NN);
  uint8_t* tmp = (uint8_t*)vf_alloc_words(vec_znx_big_normalize_base2k_tmp_bytes(&mod) / 8);
  vec_znx_big_add_small2(&mod, (VEC_ZNX_BIG*)big, 3, x, 3, NN, y, 3, NN);
  vec_znx_big_rotate(&mod, p1, (VEC_ZNX_BIG*)big2, 3, (VEC_ZNX_BIG*)big, 3);
#ifdef RANGE
  vec_znx_big_range_normalize_base2k(&mod, K, r, RSZB, NN, (VEC_ZNX_BIG*)big2, 0, 3, 1, tmp);
#else
  vec_znx_big_normalize_base2k(&mod, K, r, RSZB, NN, (VEC_ZNX_BIG*)big2, 3, tmp);
#endif
  for (uint64_t j = 0; j < NN; ++j) {
    i128 e[3];
    for (unsigned l = 0; l < 3; ++l) {
      /* coefficient j of (x+y)*X^p1 comes from coefficient s with s + p1 = j (mod 2N) */
      uint64_t s = ((uint64_t)j - (uint64_t)p1) & (2 * NN - 1);
      i128 v = s < NN ? (i128)x[l * NN + s] + y[l * NN + s] : -((i128)x[l * NN + s - NN] + y[l * NN + s - NN]);
      e[l] = v;
    }
    int64_t d2 = spec_digit(e[2]);
    i128 c = (e[2] - d2) >> K;
    int64_t d1 = spec_digit(e[1] + c);
    c = (e[1] + c - d1) >> K;
    int64_t d0 = spec_digit(e[0] + c);
    const int64_t d[3] = {d0, d1, d2};
    for (unsigned i = 0; i < RSZB; ++i)
      VF_ASSERT(r[i * NN + j] == (i < 3 ? d[i] : 0), "pipeline add -> big rotate -> big normalize equals the digits of the ring expression (carries of dropped limbs included)");
  }
  VF_REACH();
}

/* integer pipeline with an in-place resize: v (3 limbs of storage) keeps its first KEEP limbs and is zero-extended to 3 limbs inside its own buffer by
 * vec_znx_copy(res = a = v), negated in place, added to y and normalized: digits of (-trunc_KEEP(v) + y).   -DKEEP=<1|2|3> */
#ifndef KEEP
#define KEEP 2
#endif
void h_pipe_copy(void) {
  MODULE mod;
  vf_module_init_notables(&mod, NN, FFT64, AVX);
  int64_t* v = (int64_t*)vf_alloc_words_raw(3 * NN);
  int64_t* y = (int64_t*)vf_alloc_words_raw(3 * NN);
  i128 e[3][NN];
  for (uint64_t i = 0; i < 3 * NN; ++i) {
    v[i] = vf_i64();
    y[i] = vf_i64();
    VF_ASSUME(v[i] >= -(INT64_C(1) << 60) && v[i] <= (INT64_C(1) << 60));
    VF_ASSUME(y[i] >= -(INT64_C(1) << 60) && y[i] <= (INT64_C(1) << 60));
    e[i / NN][i % NN] = (i / NN < KEEP ? -(i128)v[i] : 0) + y[i];
  }
  int64_t* t = (int64_t*)vf_alloc_words(3 * NN);
  int64_t* r = (int64_t*)vf_alloc_words(3 * NN);
  uint8_t* tmp = (uint8_t*)vf_alloc_words(vec_znx_normalize_base2k_tmp_bytes(&mod) / 8);
  vec_znx_copy(&mod, v, 3, NN, v, KEEP, NN);   /* in place: truncate to KEEP limbs, zero-extend to 3 */
  vec_znx_negate(&mod, v, 3, NN, v, 3, NN);    /* in place */
  vec_znx_add(&mod, t, 3, NN, v, 3, NN, y, 3, NN);
  vec_znx_normalize_base2k(&mod, K, r, 3, NN, t, 3, NN, tmp);
  for (uint64_t j = 0; j < NN; ++j) {
    int64_t d2 = spec_digit(e[2][j]);
    i128 c = (e[2][j] - d2) >> K;
    int64_t d1 = spec_digit(e[1][j] + c);
    c = (e[1][j] + c - d1) >> K;
    int64_t d0 = spec_digit(e[0][j] + c);
    VF_ASSERT(r[2 * NN + j] == d2 && r[NN + j] == d1 && r[j] == d0,
              "pipeline in-place copy (truncate / zero-extend) -> in-place negate -> add -> normalize equals the digits of the ring expression");
  }
  VF_REACH();
}

uint64_t VF_X[ASZ * NN];
__int128_t VF_R128[RSZ * NN];
void h_pipe_ntt(void) {
  vf_fullmod fm;
  vf_fullmod_init_ntt120(&fm);
  const MODULE* mod = &fm.mod;
  int64_t* a = (int64_t*)vf_alloc_words_raw((uint64_t)ASZ * NN);
  for (unsigned i = 0; i < ASZ * NN; ++i) {
    VF_X[i] = vf_u64();
    VF_ASSUME(VF_X[i] < (UINT64_C(1) << 63));
    a[i] = (int64_t)(((NEGMASK >> (i % NN)) & 1) ? (VF_X[i] + (UINT64_C(1) << 63)) : VF_X[i]); /* value v - 2^63 for the negative class */
  }
  uint64_t* dft = vf_alloc_words((uint64_t)RSZ * NN * 4);
  __int128_t* big = (__int128_t*)malloc((uint64_t)RSZ * NN * sizeof(__int128_t)); /* typed as 128-bit coefficients */
#ifdef __CPROVER__
  __CPROVER_assume(big != 0);
#endif
  uint64_t* a0 = vf_snapshot((const uint64_t*)a, (uint64_t)ASZ * NN);
  vec_znx_dft(mod, (VEC_ZNX_DFT*)dft, RSZ, a, ASZ, NN);
  for (unsigned i = 0; i < ASZ * NN; ++i) VF_ASSERT((uint64_t)a[i] == a0[i], "vec_znx_dft leaves its coefficient input untouched");
#ifdef TMPA
  vec_znx_idft_tmp_a(mod, (VEC_ZNX_BIG*)big, RSZ, (VEC_ZNX_DFT*)dft, RSZ);
#else
  uint8_t* tmp = (uint8_t*)vf_alloc_words(vec_znx_idft_tmp_bytes(mod) / 8);
  uint64_t* d0 = vf_snapshot(dft, (uint64_t)RSZ * NN * 4);
  vec_znx_idft(mod, (VEC_ZNX_BIG*)big, RSZ, (VEC_ZNX_DFT*)dft, RSZ, tmp);
  for (unsigned i = 0; i < RSZ * NN * 4; ++i) VF_ASSERT(dft[i] == d0[i], "vec_znx_idft (not the overwrite variant) leaves its DFT input untouched");
#endif
  for (unsigned i = 0; i < RSZ * NN; ++i) VF_R128[i] = big[i];
#ifndef __CPROVER__
  for (unsigned i = 0; i < RSZ * NN; ++i) {
    __int128 want = (i / NN < ASZ) ? (__int128)a[i] : 0;
    VF_ASSERT(big[i] == want, "NTT120 vec_znx_idft(vec_znx_dft(a)) returns exactly the original signed coefficients (zero-extended)");
  }
#endif
  VF_REACH();
}
