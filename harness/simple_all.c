/* C15 / C06: the per-dimension table caches of reim_fft_simple / reim_ifft_simple / cplx_fft_simple / cplx_ifft_simple over EVERY supported dimension
 * m = 2^0 .. 2^16.  The table builders (libm, not executable symbolically) are replaced by stand-ins (bodies removed with goto-instrument) that return a
 * tiny object recording the dimension it was built for, with a transform function that records which table it was handed.  Two sweeps over all 17
 * dimensions (ascending, then descending): every call must be served by the table built for ITS dimension, and each table is built exactly once.
 *   -DKIND=0 reim fft | 1 reim ifft | 2 cplx fft | 3 cplx ifft */
#include "common.h"
#include "reim/reim_fft_internal.h"
#include "reim/reim_fft_private.h"
#include "cplx/cplx_fft_internal.h"
#include "cplx/cplx_fft_private.h"
#ifndef KIND
#define KIND 0
#endif

static int64_t vf_seen_m;
static unsigned vf_builds, vf_runs;

#ifdef __CPROVER__
#if KIND == 0
static void vf_run(const REIM_FFT_PRECOMP* p, double* d) { (void)d; vf_seen_m = p->m; vf_runs++; }
REIM_FFT_PRECOMP* new_reim_fft_precomp(uint32_t m, uint32_t nb) {
  (void)nb;
  REIM_FFT_PRECOMP* p = (REIM_FFT_PRECOMP*)malloc(sizeof(REIM_FFT_PRECOMP));
  __CPROVER_assume(p != 0);
  p->m = m;
  p->function = vf_run;
  vf_builds++;
  return p;
}
#define SIMPLE(m, d) reim_fft_simple(m, d)
#elif KIND == 1
static void vf_run(const REIM_IFFT_PRECOMP* p, double* d) { (void)d; vf_seen_m = p->m; vf_runs++; }
REIM_IFFT_PRECOMP* new_reim_ifft_precomp(uint32_t m, uint32_t nb) {
  (void)nb;
  REIM_IFFT_PRECOMP* p = (REIM_IFFT_PRECOMP*)malloc(sizeof(REIM_IFFT_PRECOMP));
  __CPROVER_assume(p != 0);
  p->m = m;
  p->function = vf_run;
  vf_builds++;
  return p;
}
#define SIMPLE(m, d) reim_ifft_simple(m, d)
#elif KIND == 2
static void vf_run(const CPLX_FFT_PRECOMP* p, void* d) { (void)d; vf_seen_m = p->m; vf_runs++; }
CPLX_FFT_PRECOMP* new_cplx_fft_precomp(uint32_t m, uint32_t nb) {
  (void)nb;
  CPLX_FFT_PRECOMP* p = (CPLX_FFT_PRECOMP*)malloc(sizeof(CPLX_FFT_PRECOMP));
  __CPROVER_assume(p != 0);
  p->m = m;
  p->function = vf_run;
  vf_builds++;
  return p;
}
#define SIMPLE(m, d) cplx_fft_simple(m, d)
#else
static void vf_run(const CPLX_IFFT_PRECOMP* p, void* d) { (void)d; vf_seen_m = p->m; vf_runs++; }
CPLX_IFFT_PRECOMP* new_cplx_ifft_precomp(uint32_t m, uint32_t nb) {
  (void)nb;
  CPLX_IFFT_PRECOMP* p = (CPLX_IFFT_PRECOMP*)malloc(sizeof(CPLX_IFFT_PRECOMP));
  __CPROVER_assume(p != 0);
  p->m = m;
  p->function = vf_run;
  vf_builds++;
  return p;
}
#define SIMPLE(m, d) cplx_ifft_simple(m, d)
#endif
#endif

void h_simple_all(void) {
#ifdef __CPROVER__
  double dummy[2];
  for (int sweep = 0; sweep < 2; ++sweep) {
    for (unsigned k = 0; k <= 16; ++k) {
      const unsigned lg = sweep == 0 ? k : 16 - k;
      const uint32_t m = (uint32_t)1 << lg;
      vf_seen_m = -1;
      SIMPLE(m, dummy);
      VF_ASSERT(vf_seen_m == (int64_t)m, "the call is served by the table built for its own dimension");
    }
  }
  VF_ASSERT(vf_builds == 17 && vf_runs == 34, "one table per dimension, built on first use only");
  VF_REACH();
#else
  /* native replay: the real functions on two dimensions that a too-small cache would map to the same slot (m = 1 first, then every m up to 65536):
   * the transform of a unit impulse through the caching entry point must equal the one through a fresh table */
  for (unsigned lg = 0; lg <= 16; ++lg) {
    const uint32_t m = (uint32_t)1 << lg;
    double* x = (double*)calloc(2 * (size_t)m, sizeof(double));
    double* y = (double*)calloc(2 * (size_t)m, sizeof(double));
    x[0] = y[0] = 1.0;
    if (m > 1) x[1] = y[1] = 0.5;
#if KIND == 0
    reim_fft_simple(m, x);
    REIM_FFT_PRECOMP* p = new_reim_fft_precomp(m, 0);
    reim_fft(p, y);
#elif KIND == 1
    reim_ifft_simple(m, x);
    REIM_IFFT_PRECOMP* p = new_reim_ifft_precomp(m, 0);
    reim_ifft(p, y);
#elif KIND == 2
    cplx_fft_simple(m, x);
    CPLX_FFT_PRECOMP* p = new_cplx_fft_precomp(m, 0);
    cplx_fft(p, y);
#else
    cplx_ifft_simple(m, x);
    CPLX_IFFT_PRECOMP* p = new_cplx_ifft_precomp(m, 0);
    cplx_ifft(p, y);
#endif
    for (size_t i = 0; i < 2 * (size_t)m; ++i) VF_ASSERT(memcmp(&x[i], &y[i], 8) == 0, "caching entry point gives the bits of a fresh table for its dimension");
    free(x);
    free(y);
    free(p);
  }
#endif
}
