/* C06 / C07: the pass schedule of the reim FFT / iFFT drivers for EVERY m up to 65536.  The drivers (reference and AVX2) are the real code; the
 * pass kernels (16-point leaves, radix-4 "bitwiddle" passes, radix-2 "twiddle" passes) are replaced by functions that log which pass ran on
 * which slice of the data with which slice of the twiddle table (bodies removed from the library objects with goto-instrument, these
 * definitions linked instead).  Everything is concrete: symbolic execution runs the drivers like an interpreter.  Obligation: the AVX2 driver
 * issues exactly the passes of the reference driver (same kind, same h, same data offsets, same twiddle offsets) - so the accelerated
 * transform is the reference transform for every m, given that each kernel pair agrees (end-to-end obligations at m <= 64).
 *   -DKIND=0 forward | 1 inverse     -DM=<m: 32..65536> */
#include "common.h"
#include "reim/reim_fft_internal.h"
#include "reim/reim_fft_private.h"
#ifndef KIND
#define KIND 1
#endif
#ifndef M
#define M 128
#endif
/* the schedule of each driver is folded into two independent 64-bit digests (plus the pass count): everything is concrete, so symbolic
 * execution constant-folds them and the comparison is decided without any array in the formula */
static uint64_t vf_h1[2], vf_h2[2], vf_last_om[2];
static unsigned vf_n[2], vf_cur;
static double *vf_dat, *vf_omg;

static void rec(uint32_t kind, uint64_t h, const double* re, const double* im, const void* om) {
  const uint64_t re_off = (uint64_t)(re - vf_dat), im_off = (uint64_t)(im - vf_dat), om_off = (uint64_t)((const double*)om - vf_omg);
  const uint64_t w = (((uint64_t)kind * 0x100000001B3ull + h) * 0x9E3779B97F4A7C15ull + re_off) * 0xC2B2AE3D27D4EB4Full + (im_off << 20) + om_off;
  vf_h1[vf_cur] = (vf_h1[vf_cur] ^ w) * 0x100000001B3ull + 0x7F4A7C15ull;
  vf_h2[vf_cur] = (vf_h2[vf_cur] + w * 0xD6E8FEB86659FD93ull) ^ (vf_h2[vf_cur] >> 29);
  vf_last_om[vf_cur] = om_off + (kind == 1 ? 16 : kind == 2 ? 4 : 2);
  vf_n[vf_cur]++;
}
#ifdef __CPROVER__
double log2(double x) { /* exact on powers of two, which is all the reference drivers ask */
  double p = 1.0;
  int e = 0;
  while (e < 64 && p * 2.0 <= x) {
    p *= 2.0;
    ++e;
  }
  return (double)e + (p == x ? 0.0 : 0.5);
}
/* logging stand-ins for the pass kernels (real signatures) */
#if KIND == 0
void reim_fft16_ref(double* dre, double* dim, const void* pom) { rec(1, 16, dre, dim, pom); }
void reim_twiddle_fft_ref(uint64_t h, double* re, double* im, double om[2]) { rec(3, h, re, im, om); }
void reim_bitwiddle_fft_ref(uint64_t h, double* re, double* im, double om[4]) { rec(2, h, re, im, om); }
void reim_fft16_avx_fma(double* dre, double* dim, const void* pom) { rec(1, 16, dre, dim, pom); }
void reim_twiddle_fft_avx2_fma(uint32_t h, double* re, double* im, double om[2]) { rec(3, h, re, im, om); }
void reim_bitwiddle_fft_avx2_fma(uint32_t h, double* re, double* im, double om[4]) { rec(2, h, re, im, om); }
#else
void reim_ifft16_ref(double* dre, double* dim, const void* pom) { rec(1, 16, dre, dim, pom); }
void reim_invtwiddle_ifft_ref(uint64_t h, double* re, double* im, double om[2]) { rec(3, h, re, im, om); }
void reim_invbitwiddle_ifft_ref(uint64_t h, double* re, double* im, double om[4]) { rec(2, h, re, im, om); }
void reim_ifft16_avx_fma(double* dre, double* dim, const void* pom) { rec(1, 16, dre, dim, pom); }
void reim_invtwiddle_ifft_avx2_fma(uint32_t h, double* re, double* im, double om[2]) { rec(3, h, re, im, om); }
void reim_invbitwiddle_ifft_avx2_fma(uint32_t h, double* re, double* im, double om[4]) { rec(2, h, re, im, om); }
#endif
#endif

#ifdef __CPROVER__
int vf_marker;
#endif
#if defined(VF_TSAN_REPLAY) && !defined(__CPROVER__)
/* native confirmation of a write-set hit (C12): two real threads run the real drivers on one shared table and private data under ThreadSanitizer */
#include <pthread.h>
static void* vf_tbl;
static void* vf_sched_worker(void* arg) {
  double* x = (double*)arg;
  for (int it = 0; it < 6; ++it) {
#if KIND == 0
    reim_fft_avx2_fma((REIM_FFT_PRECOMP*)vf_tbl, x);
    reim_fft_ref((REIM_FFT_PRECOMP*)vf_tbl, x);
#else
    reim_ifft_avx2_fma((REIM_IFFT_PRECOMP*)vf_tbl, x);
    reim_ifft_ref((REIM_IFFT_PRECOMP*)vf_tbl, x);
#endif
  }
  return 0;
}
#endif

void h_sched(void) {
#if defined(VF_TSAN_REPLAY) && !defined(__CPROVER__)
  {
    vf_tbl = KIND == 0 ? (void*)new_reim_fft_precomp(M, 0) : (void*)new_reim_ifft_precomp(M, 0);
    double* xs[2];
    for (int t = 0; t < 2; ++t) {
      xs[t] = (double*)aligned_alloc(64, 2 * (uint64_t)M * sizeof(double));
      for (uint64_t i = 0; i < 2 * (uint64_t)M; ++i) xs[t][i] = (double)((i * 7 + t) % 13) - 6.0;
    }
    pthread_t th[2];
    for (int t = 0; t < 2; ++t) pthread_create(&th[t], 0, vf_sched_worker, xs[t]);
    for (int t = 0; t < 2; ++t) pthread_join(th[t], 0);
    VF_REACH();
    return;
  }
#endif
#ifdef __CPROVER__
  vf_dat = (double*)malloc(2 * (uint64_t)M * sizeof(double));
  vf_omg = (double*)malloc(2 * (uint64_t)M * sizeof(double));
  __CPROVER_assume(vf_dat != 0 && vf_omg != 0);
#if KIND == 0
  REIM_FFT_PRECOMP p;
#else
  REIM_IFFT_PRECOMP p;
#endif
  p.m = M;
  p.powomegas = vf_omg;
  vf_cur = 0;
  vf_marker = 1; /* C12: the write-set analysis looks at the static-lifetime objects the drivers assign from here on */
#if KIND == 0
  reim_fft_ref(&p, vf_dat);
  vf_cur = 1;
  reim_fft_avx2_fma(&p, vf_dat);
#else
  reim_ifft_ref(&p, vf_dat);
  vf_cur = 1;
  reim_ifft_avx2_fma(&p, vf_dat);
#endif
  VF_ASSERT(vf_n[0] == vf_n[1], "reference and AVX2 drivers run the same number of passes");
  VF_ASSERT(vf_n[0] >= M / 16, "every 16-point leaf is visited");
  VF_ASSERT(vf_h1[0] == vf_h1[1] && vf_h2[0] == vf_h2[1],
            "the AVX2 driver issues exactly the passes of the reference driver, in the same order (kind, h, data slice, twiddle slice)");
  VF_ASSERT(vf_last_om[0] <= 2 * (uint64_t)M && vf_last_om[1] <= 2 * (uint64_t)M, "twiddle reads stay inside the 2m-double table");
  VF_REACH();
#else
  /* native replay: the real kernels cannot be replaced in the real library: compare the two real transforms on a deterministic input (same table) */
  REIM_FFT_PRECOMP* pf = new_reim_fft_precomp(M, 0);
  REIM_IFFT_PRECOMP* pi = new_reim_ifft_precomp(M, 0);
  double* x = (double*)malloc(2 * (uint64_t)M * sizeof(double));
  double* y = (double*)malloc(2 * (uint64_t)M * sizeof(double));
  uint64_t st = 88172645463325252ull;
  for (uint64_t i = 0; i < 2 * (uint64_t)M; ++i) {
    st ^= st << 13, st ^= st >> 7, st ^= st << 17;
    x[i] = y[i] = (double)(int64_t)(st % 2001) - 1000.0;
  }
#if KIND == 0
  reim_fft_ref(pf, x);
  reim_fft_avx2_fma(pf, y);
#else
  reim_ifft_ref(pi, x);
  reim_ifft_avx2_fma(pi, y);
#endif
  double num = 0, den = 0;
  for (uint64_t i = 0; i < 2 * (uint64_t)M; ++i) {
    num += (x[i] - y[i]) * (x[i] - y[i]);
    den += x[i] * x[i];
  }
  VF_ASSERT(num <= 1e-20 * den, "AVX2 transform agrees with the reference transform (same table) up to rounding");
#endif
}
