/* C10 / C04: q120 vector-matrix products on the dumped precomputations.
 *   -DFORM= 0 baa  1 bbb  2 bbc  3 x2 1col bbc  4 x2 2cols bbc     -DFN=<function>   -DELL=<number of terms>
 * Inputs are separate 64-bit words VF_X[] (x operand) and VF_Y[] (y operand: one word per 64-bit lane for a/b
 * layouts, one word per 32-bit half for the c layout, so that the two halves are independent atoms).
 * CBMC/vcalg: outputs in VF_OUT.  Native replay: exact 128-bit reference modulo each prime. */
#include "common.h"
#include "vf_tables.h"
#include "q120/q120_arithmetic.h"
#include "q120/q120_arithmetic_private.h"

#ifndef FORM
#define FORM 0
#endif
#ifndef ELL
#define ELL 2
#endif
#ifndef FN
#define FN q120_vec_mat1col_product_baa_ref
#endif

#if FORM <= 2
#define XW (4 * ELL)
#define NRES 4
#else
#define XW (8 * ELL)
#define NRES (FORM == 3 ? 8 : 16)
#endif
#if FORM <= 1
#define YW (4 * ELL) /* 64-bit words */
#define Y32 0
#elif FORM == 2
#define YW (8 * ELL) /* 32-bit words */
#define Y32 1
#elif FORM == 3
#define YW (16 * ELL)
#define Y32 1
#else
#define YW (32 * ELL)
#define Y32 1
#endif

uint64_t VF_X[XW ? XW : 1];
uint64_t VF_Y[YW ? YW : 1];
uint64_t VF_OUT[NRES];
static const uint64_t QS[4] = {VFT_Q1, VFT_Q2, VFT_Q3, VFT_Q4};

void h_prod(void) {
  uint64_t* x = vf_alloc_words_raw(XW);
#if Y32
  uint32_t* y = (uint32_t*)malloc(YW * sizeof(uint32_t)); /* typed as 32-bit words: the two halves of a lane stay independent symbols */
#ifdef __CPROVER__
  __CPROVER_assume(y != 0);
#endif
#else
  uint64_t* y = vf_alloc_words_raw(YW);
#endif
  uint64_t* res = vf_alloc_words(NRES);
  for (unsigned i = 0; i < XW; ++i) {
    VF_X[i] = vf_u64();
#if FORM == 0
#if defined(VF_CYCLIC_INPUTS) && !defined(__CPROVER__)
    VF_X[i] &= 0xffffffffULL;
#endif
    VF_ASSUME(VF_X[i] <= 0xffffffffULL); /* a layout: 32-bit values */
#endif
    x[i] = VF_X[i];
  }
  for (unsigned i = 0; i < YW; ++i) {
    VF_Y[i] = vf_u64();
#if FORM == 0 || Y32
#if defined(VF_CYCLIC_INPUTS) && !defined(__CPROVER__)
    VF_Y[i] &= 0xffffffffULL;
#endif
    VF_ASSUME(VF_Y[i] <= 0xffffffffULL);
#endif
#if Y32
    y[i] = (uint32_t)VF_Y[i];
#else
    y[i] = VF_Y[i];
#endif
  }
#if Y32 && !defined(__CPROVER__)
  /* c layout contract: second word == first word * 2^32 mod q (any representative below 2^32): the replay file
   * provides the first words; second words are recomputed canonically plus an optional multiple of q */
  for (unsigned i = 0; i + 1 < YW; i += 2) {
    uint64_t q = QS[(i / 2) % 4];
    uint64_t c = (uint64_t)((((unsigned __int128)y[i]) << 32) % q);
    if (VF_Y[i + 1] & 2) {
      while (c + q <= 0xffffffffULL) c += q; /* the largest representative below 2^32 (worst case for the accumulators) */
    } else if ((VF_Y[i + 1] & 1) && c + q <= 0xffffffffULL) {
      c += q; /* a non-canonical representative */
    }
    y[i + 1] = (uint32_t)c;
  }
#endif
#if FORM == 0
  q120_mat1col_product_baa_precomp pre = VFT_BAA_INIT;
  FN(&pre, ELL, (q120b*)res, (const q120a*)x, (const q120a*)y);
#elif FORM == 1
  q120_mat1col_product_bbb_precomp pre = VFT_BBB_INIT;
  FN(&pre, ELL, (q120b*)res, (const q120b*)x, (const q120b*)y);
#else
  q120_mat1col_product_bbc_precomp pre = VFT_BBC_INIT;
  FN(&pre, ELL, (q120b*)res, (const q120b*)x, (const q120c*)y);
#endif
  for (unsigned i = 0; i < NRES; ++i) VF_OUT[i] = res[i];
  for (unsigned i = 0; i < XW; ++i) VF_ASSERT(x[i] == VF_X[i], "x operand untouched");
#ifdef __CPROVER__
  for (unsigned i = 0; i < YW; ++i) VF_ASSERT((uint64_t)y[i] == VF_Y[i], "y operand untouched");
#endif
#ifndef __CPROVER__
  for (unsigned r = 0; r < NRES; ++r) {
    unsigned k = r % 4, blk = r / 4;
    uint64_t q = QS[k];
    unsigned __int128 acc = 0;
    for (unsigned i = 0; i < ELL; ++i) {
      uint64_t xv, yv;
#if FORM <= 1
      xv = x[4 * i + k];
      yv = ((uint64_t*)y)[4 * i + k];
#elif FORM == 2
      xv = x[4 * i + k];
      yv = y[8 * i + 2 * k];
#elif FORM == 3
      xv = x[8 * i + 4 * blk + k];
      yv = y[16 * i + 8 * blk + 2 * k];
#else
      xv = x[8 * i + 4 * (blk % 2) + k];
      yv = y[32 * i + 8 * blk + 2 * k];
#endif
      acc = (acc + ((unsigned __int128)(xv % q) * (yv % q)) % q) % q;
    }
    if (res[r] % q != (uint64_t)acc) printf("lane %u: got %llu mod q, expected %llu\n", r, (unsigned long long)(res[r] % q), (unsigned long long)acc);
    VF_ASSERT(res[r] % q == (uint64_t)acc, "product lane congruent to sum x_i*y_i modulo the prime");
  }
#endif
  VF_REACH();
}

/* large-ell variant for the wrap-freedom obligation (C04): operands are uninitialised (= nondeterministic) local arrays, no
 * copies, no per-element harness loops, so that symbolic execution only unrolls the kernel's own loop.  The analysis gives
 * the array elements their layout ranges by position. */
void h_prod_big(void) {
  uint64_t xbig[XW ? XW : 1];
#if Y32
  uint32_t ybig[YW ? YW : 1];
#else
  uint64_t ybig[YW ? YW : 1];
#endif
  uint64_t rbig[NRES];
#if FORM == 0
  q120_mat1col_product_baa_precomp pre = VFT_BAA_INIT;
  FN(&pre, ELL, (q120b*)rbig, (const q120a*)xbig, (const q120a*)ybig);
#elif FORM == 1
  q120_mat1col_product_bbb_precomp pre = VFT_BBB_INIT;
  FN(&pre, ELL, (q120b*)rbig, (const q120b*)xbig, (const q120b*)ybig);
#else
  q120_mat1col_product_bbc_precomp pre = VFT_BBC_INIT;
  FN(&pre, ELL, (q120b*)rbig, (const q120b*)xbig, (const q120c*)ybig);
#endif
  for (unsigned i = 0; i < NRES; ++i) VF_OUT[i] = rbig[i];
  VF_REACH();
}
