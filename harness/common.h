/* Harness conventions shared by every obligation (see DESIGN.md 2.1).
 *
 * A harness is dual-mode:
 *   - under CBMC (__CPROVER__): inputs are nondeterministic, logged into vf_in[] so that the
 *     counterexample can be read back from the trace;
 *   - natively (-DVF_NATIVE, gcc + ASan, real <immintrin.h>): the same code reads the logged
 *     inputs from a file and VF_ASSERT/VF_ASSUME become run-time checks.  This is the replay
 *     that every solver counterexample has to survive before it is reported.
 */
#ifndef VF_COMMON_H
#define VF_COMMON_H
#include <stdint.h>
#include <stdlib.h>
#include <string.h>

#ifndef VF_MAX_IN
#define VF_MAX_IN 4096
#endif

#ifdef __CPROVER__
uint64_t nondet_u64(void);
double nondet_f64(void);
#ifndef VF_NO_DEFS
uint64_t vf_in[VF_MAX_IN];
unsigned vf_nin;
int vf_nowrap; /* see shim/immintrin.h */
unsigned vf_tid; /* emulated thread of the running call (library built with -DVF_TLS_EMUL, see vf.core TLS rewrite) */
/* CBMC's fma() model calls feraiseexcept() (which asserts) for inf*0 / inf-inf operands; floating-point
 * exception flags are not part of any property, and with this empty body the operand classification is
 * sliced away instead of being bit-blasted in every memory-safety run */
int feraiseexcept(int excepts) {
  (void)excepts;
  return 0;
}
int vf_cpu_avx;  /* answer of the CPU-feature hook (cpu_hook.h) */
int vf_cpu_supports(const char* feature) {
  (void)feature;
  return vf_cpu_avx;
}
#else
extern uint64_t vf_in[VF_MAX_IN];
extern unsigned vf_nin;
extern int vf_nowrap;
#endif
#define VF_ASSERT(c, msg) __CPROVER_assert((c), msg)
#define VF_ASSUME(c) __CPROVER_assume(c)
#define VF_REACH() __CPROVER_assert(0, "VF_REACH")
static inline uint64_t vf_u64(void) {
  uint64_t v = nondet_u64();
#ifndef VF_NOLOG /* very large instances (no solver trace is read back from them) skip the input log */
  vf_in[vf_nin++] = v;
#endif
  return v;
}
static inline double vf_f64(void) {
  double x = nondet_f64();
#ifndef VF_NOLOG
  uint64_t v;
  memcpy(&v, &x, 8);
  vf_in[vf_nin++] = v;
#endif
  return x;
}
#else
#include <stdio.h>
extern uint64_t vf_in[VF_MAX_IN];
extern unsigned vf_nin, vf_navail;
#define VF_ASSERT(c, msg)                                   \
  do {                                                      \
    if (!(c)) {                                             \
      printf("VF_ASSERT_FAILED: %s (%s:%d)\n", msg, __FILE__, __LINE__); \
      fflush(stdout);                                       \
      exit(1);                                              \
    }                                                       \
  } while (0)
#define VF_ASSUME(c)                                        \
  do {                                                      \
    if (!(c)) {                                             \
      printf("VF_ASSUME_FAILED: %s (%s:%d)\n", #c, __FILE__, __LINE__); \
      fflush(stdout);                                       \
      exit(3);                                              \
    }                                                       \
  } while (0)
#define VF_REACH() ((void)0)
#ifdef VF_TSAN_REPLAY
/* two-thread ThreadSanitizer confirmation: every thread reads the (read-only) input words with a cursor of its own */
static __thread unsigned vf_tnin;
static inline uint64_t vf_u64(void) {
  uint64_t v = vf_navail ? vf_in[vf_tnin % vf_navail] : 0;
  vf_tnin++;
  return v;
}
#else
static inline uint64_t vf_u64(void) {
#ifdef VF_CYCLIC_INPUTS /* replays at a larger size than the solver run: the recorded operand pattern is repeated */
  uint64_t v = vf_navail ? vf_in[vf_nin % vf_navail] : 0;
#else
  uint64_t v = vf_nin < vf_navail ? vf_in[vf_nin] : 0;
#endif
  vf_nin++;
  return v;
}
#endif
static inline double vf_f64(void) {
  uint64_t v = vf_u64();
  double x;
  memcpy(&x, &v, 8);
  return x;
}
#endif

static inline int64_t vf_i64(void) { return (int64_t)vf_u64(); }

/* exactly-sized heap object of n 64-bit words, contents nondeterministic (also the native replay
 * fills it from the input stream, so "depends on previous contents" is replayable) */
static inline uint64_t* vf_alloc_words(uint64_t n) {
  uint64_t* p = (uint64_t*)malloc(n * sizeof(uint64_t)); /* typed size expression: CBMC then models the object as uint64_t[n], not bytes */
#ifdef __CPROVER__
  __CPROVER_assume(p != 0);
#endif
  for (uint64_t i = 0; i < n; ++i) p[i] = vf_u64();
  return p;
}
static inline uint64_t* vf_alloc_words_raw(uint64_t n) {
  uint64_t* p = (uint64_t*)malloc(n * sizeof(uint64_t)); /* typed size expression: CBMC then models the object as uint64_t[n], not bytes */
#ifdef __CPROVER__
  __CPROVER_assume(p != 0);
#else
  /* native replay: arbitrary prior contents are a non-zero pattern (the double 1.5), not the zeros of a fresh heap page */
  for (uint64_t i = 0; i < n; ++i) p[i] = UINT64_C(0x3ff8000000000000);
#endif
  return p;
}
static inline uint64_t* vf_snapshot(const uint64_t* p, uint64_t n) {
  uint64_t* s = (uint64_t*)malloc(n * sizeof(uint64_t));
#ifdef __CPROVER__
  __CPROVER_assume(s != 0);
#endif
  for (uint64_t i = 0; i < n; ++i) s[i] = p[i];
  return s;
}

/* number of words of a limb vector that holds `size` limbs of nn words at stride sl
 * (no padding after the last limb: the documented minimal extent) */
static inline uint64_t vf_extent(uint64_t size, uint64_t sl, uint64_t nn) { return size ? (size - 1) * sl + nn : 0; }

#endif
