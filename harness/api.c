/* C11 / C18 / C12 (frame) / zero-row part of C01-C03: DFT-space entry points through the public API on exactly-sized heap
 * buffers, all data symbolic (the formula is sliced: floating-point values cost nothing in these memory/frame queries).
 *   -DAPI= 1 vec_znx_dft  2 vec_znx_idft  3 vec_znx_idft_tmp_a  4 svp_prepare  5 svp_apply_dft  6 znx_small_single_product
 *          7 vmp_prepare_contiguous  8 vmp_apply_dft  9 vmp_apply_dft_to_dft
 *   -DMT=0 fft64 | 1 ntt120 (API 1..3)   -DNN -DAVX -DRSZ -DASZ -DASL -DNROWS -DNCOLS   -DOFFS=<words of misalignment: 0..3> */
#include "apimod.h"

#ifndef API
#define API 1
#endif
#ifndef MT
#define MT 0
#endif
#ifndef RSZ
#define RSZ 2
#endif
#ifndef ASZ
#define ASZ 2
#endif
#ifndef ASL
#define ASL NN
#endif
#ifndef NROWS
#define NROWS 2
#endif
#ifndef NCOLS
#define NCOLS 2
#endif
#ifndef OFFS
#define OFFS 0
#endif

/* buffer of exactly n 64-bit words placed OFFS words inside its allocation (8/16/24-byte misalignment of the start) */
#ifndef ARENA
static uint64_t* buf(uint64_t n) { return vf_alloc_words(n + OFFS) + OFFS; }
#else
/* -DARENA=1|2: every buffer of the call is a slice of ONE allocation, back to back with no gap (1: in order of use, 2: in reverse order) - the
 * layout of a caller that carves its vectors out of a scratch arena.  Overruns of a slice then land in the neighbouring operand (seen by the
 * snapshot comparisons) instead of being flagged as out of bounds, and code that compares addresses of different arguments sees adjacent ranges. */
#ifndef ARENA_WORDS
#define ARENA_WORDS 1536
#endif
static uint64_t* vf_arena;
static uint64_t vf_arena_lo, vf_arena_hi;
static uint64_t* buf(uint64_t n) {
  if (!vf_arena) {
    vf_arena = vf_alloc_words_raw(ARENA_WORDS);
    vf_arena_lo = 0;
    vf_arena_hi = ARENA_WORDS;
  }
  VF_ASSERT(vf_arena_lo + n <= vf_arena_hi, "harness arena large enough");
  uint64_t* p;
  if (ARENA == 1) {
    p = vf_arena + vf_arena_lo;
    vf_arena_lo += n;
  } else {
    vf_arena_hi -= n;
    p = vf_arena + vf_arena_hi;
  }
  for (uint64_t i = 0; i < n; ++i) p[i] = vf_u64();
  return p;
}
#endif

static uint64_t words_of_bytes(uint64_t b) {
  VF_ASSERT(b % 8 == 0, "byte size is a multiple of 8");
  return b / 8;
}

static void check_same(const uint64_t* p, const uint64_t* snap, uint64_t n, const char* what) {
  (void)what;
  for (uint64_t i = 0; i < n; ++i) VF_ASSERT(p[i] == snap[i], "read-only operand bit-for-bit unchanged");
}

#if MT == 0
#define DW 1 /* dft words per coefficient */
#define BW 1 /* big words per coefficient */
#else
#define DW 4
#define BW 2
#endif

/* one call of the entry point on buffers of its own */
static void api_body(const MODULE* mod) {
#if API == 1
#if MT == 0
  VF_ASSERT(bytes_of_vec_znx_dft(mod, RSZ) == RSZ * NN * DW * 8, "bytes_of_vec_znx_dft");
#endif
  uint64_t* res = buf((uint64_t)RSZ * NN * DW);
  const uint64_t aw = vf_extent(ASZ, ASL, NN);
  uint64_t* a = buf(aw);
  uint64_t* a0 = vf_snapshot(a, aw);
  vec_znx_dft(mod, (VEC_ZNX_DFT*)res, RSZ, (int64_t*)a, ASZ, ASL);
  check_same(a, a0, aw, "a");
  for (uint64_t i = (RSZ < ASZ ? RSZ : ASZ) * NN * DW; i < (uint64_t)RSZ * NN * DW; ++i) VF_ASSERT(res[i] == 0, "dft rows beyond the input size are exactly zero");
#elif API == 2
#ifdef INPLACE_IDFT
  /* the inverse DFT writing over its own input (supported for the FFT64 layout, where a DFT limb and a big limb have the same size): one buffer of
   * max(res_size, a_size) limbs, previous contents arbitrary; rows beyond the input size must still come out exactly zero */
  uint64_t* res = buf((uint64_t)(RSZ > ASZ ? RSZ : ASZ) * NN * BW);
  uint64_t* a = res;
  uint64_t tb = words_of_bytes(vec_znx_idft_tmp_bytes(mod));
  uint8_t* tmp = (uint8_t*)buf(tb);
  vec_znx_idft(mod, (VEC_ZNX_BIG*)res, RSZ, (VEC_ZNX_DFT*)a, ASZ, tmp);
#else
  uint64_t* res = buf((uint64_t)RSZ * NN * BW);
  uint64_t* a = buf((uint64_t)ASZ * NN * DW);
  uint64_t* a0 = vf_snapshot(a, (uint64_t)ASZ * NN * DW);
  uint64_t tb = words_of_bytes(vec_znx_idft_tmp_bytes(mod));
  uint8_t* tmp = (uint8_t*)buf(tb);
  vec_znx_idft(mod, (VEC_ZNX_BIG*)res, RSZ, (VEC_ZNX_DFT*)a, ASZ, tmp);
  check_same(a, a0, (uint64_t)ASZ * NN * DW, "a_dft");
#endif
  for (uint64_t i = (RSZ < ASZ ? RSZ : ASZ) * NN * BW; i < (uint64_t)RSZ * NN * BW; ++i) VF_ASSERT(res[i] == 0, "idft rows beyond the input size are exactly zero");
#elif API == 3
  uint64_t* res = buf((uint64_t)RSZ * NN * BW);
  uint64_t* a = buf((uint64_t)ASZ * NN * DW); /* documented exception: overwritten */
  vec_znx_idft_tmp_a(mod, (VEC_ZNX_BIG*)res, RSZ, (VEC_ZNX_DFT*)a, ASZ);
  for (uint64_t i = (RSZ < ASZ ? RSZ : ASZ) * NN * BW; i < (uint64_t)RSZ * NN * BW; ++i) VF_ASSERT(res[i] == 0, "idft rows beyond the input size are exactly zero");
#elif API == 4
  uint64_t* pp = buf(words_of_bytes(bytes_of_svp_ppol(mod)));
  uint64_t* a = buf(NN);
  uint64_t* a0 = vf_snapshot(a, NN);
  svp_prepare(mod, (SVP_PPOL*)pp, (int64_t*)a);
  check_same(a, a0, NN, "pol");
#elif API == 5
  uint64_t* pp = buf(words_of_bytes(bytes_of_svp_ppol(mod)));
  uint64_t* pp0 = vf_snapshot(pp, NN);
  uint64_t* res = buf(words_of_bytes(bytes_of_vec_znx_dft(mod, RSZ)));
  const uint64_t aw = vf_extent(ASZ, ASL, NN);
  uint64_t* a = buf(aw);
  uint64_t* a0 = vf_snapshot(a, aw);
  svp_apply_dft(mod, (VEC_ZNX_DFT*)res, RSZ, (SVP_PPOL*)pp, (int64_t*)a, ASZ, ASL);
  check_same(a, a0, aw, "a");
  check_same(pp, pp0, NN, "ppol");
  for (uint64_t i = (RSZ < ASZ ? RSZ : ASZ) * NN; i < (uint64_t)RSZ * NN; ++i) VF_ASSERT(res[i] == 0, "svp rows beyond the input size are exactly zero");
#elif API == 6
  uint64_t* res = buf(NN);
  uint64_t* a = buf(NN);
  uint64_t* b = buf(NN);
  uint64_t* a0 = vf_snapshot(a, NN);
  uint64_t* b0 = vf_snapshot(b, NN);
  uint8_t* tmp = (uint8_t*)buf(words_of_bytes(znx_small_single_product_tmp_bytes(mod)));
  znx_small_single_product(mod, (int64_t*)res, (int64_t*)a, (int64_t*)b, tmp);
  check_same(a, a0, NN, "a");
  check_same(b, b0, NN, "b");
#elif API == 7
  uint64_t* pm = buf(words_of_bytes(bytes_of_vmp_pmat(mod, NROWS, NCOLS)));
  uint64_t* mat = buf((uint64_t)NROWS * NCOLS * NN);
  uint64_t* mat0 = vf_snapshot(mat, (uint64_t)NROWS * NCOLS * NN);
  uint8_t* tmp = (uint8_t*)buf(words_of_bytes(vmp_prepare_contiguous_tmp_bytes(mod, NROWS, NCOLS)));
  vmp_prepare_contiguous(mod, (VMP_PMAT*)pm, (int64_t*)mat, NROWS, NCOLS, tmp);
  check_same(mat, mat0, (uint64_t)NROWS * NCOLS * NN, "mat");
#elif API == 8
  const uint64_t pw = words_of_bytes(bytes_of_vmp_pmat(mod, NROWS, NCOLS));
  uint64_t* pm = buf(pw);
  uint64_t* pm0 = vf_snapshot(pm, pw);
  uint64_t* res = buf(words_of_bytes(bytes_of_vec_znx_dft(mod, RSZ)));
  const uint64_t aw = vf_extent(ASZ, ASL, NN);
  uint64_t* a = buf(aw);
  uint64_t* a0 = vf_snapshot(a, aw);
  uint8_t* tmp = (uint8_t*)buf(words_of_bytes(vmp_apply_dft_tmp_bytes(mod, RSZ, ASZ, NROWS, NCOLS)));
  vmp_apply_dft(mod, (VEC_ZNX_DFT*)res, RSZ, (int64_t*)a, ASZ, ASL, (VMP_PMAT*)pm, NROWS, NCOLS, tmp);
  check_same(a, a0, aw, "a");
  check_same(pm, pm0, pw, "pmat");
  for (uint64_t i = (RSZ < NCOLS ? RSZ : NCOLS) * NN; i < (uint64_t)RSZ * NN; ++i) VF_ASSERT(res[i] == 0, "vmp output columns beyond ncols are exactly zero");
#elif API == 10
  /* sizing functions of the module: must be callable and large enough for the layout the transforms use */
  VF_ASSERT(bytes_of_vec_znx_dft(mod, RSZ) >= (uint64_t)RSZ * NN * DW * 8, "bytes_of_vec_znx_dft covers the dft layout");
  VF_ASSERT(bytes_of_vec_znx_big(mod, RSZ) >= (uint64_t)RSZ * NN * BW * 8, "bytes_of_vec_znx_big covers the big layout");
  VF_ASSERT(module_get_n(mod) == NN, "module_get_n returns the ring dimension");
#elif API == 9
  const uint64_t pw = words_of_bytes(bytes_of_vmp_pmat(mod, NROWS, NCOLS));
  uint64_t* pm = buf(pw);
  uint64_t* pm0 = vf_snapshot(pm, pw);
  uint64_t* res = buf(words_of_bytes(bytes_of_vec_znx_dft(mod, RSZ)));
  uint64_t* a = buf((uint64_t)ASZ * NN);
  uint64_t* a0 = vf_snapshot(a, (uint64_t)ASZ * NN);
  uint8_t* tmp = (uint8_t*)buf(words_of_bytes(vmp_apply_dft_to_dft_tmp_bytes(mod, RSZ, ASZ, NROWS, NCOLS)));
  vmp_apply_dft_to_dft(mod, (VEC_ZNX_DFT*)res, RSZ, (VEC_ZNX_DFT*)a, ASZ, (VMP_PMAT*)pm, NROWS, NCOLS, tmp);
  check_same(a, a0, (uint64_t)ASZ * NN, "a_dft");
  check_same(pm, pm0, pw, "pmat");
  for (uint64_t i = (RSZ < NCOLS ? RSZ : NCOLS) * NN; i < (uint64_t)RSZ * NN; ++i) VF_ASSERT(res[i] == 0, "vmp output columns beyond ncols are exactly zero");
#endif

}

#ifdef __CPROVER__
int vf_marker; /* assigned when the module is built: the write-set analysis (vf.alg.uf) looks at what the entry point assigns afterwards */
#endif
#if defined(VF_TSAN_REPLAY) && !defined(__CPROVER__)
#include <pthread.h>
static void* vf_api_worker(void* arg) {
  for (int it = 0; it < 20; ++it) api_body((const MODULE*)arg);
  return 0;
}
#endif

void h_api(void) {
#ifdef __CPROVER__
  vf_nin = 0; /* the harness' own bookkeeping is (re)initialised here: C12 runs this harness with all static storage havocked */
  vf_nowrap = 0;
#endif
  vf_fullmod fm;
#if MT == 0
  vf_fullmod_init_fft64(&fm, AVX);
#else
  vf_fullmod_init_ntt120(&fm);
#endif
  const MODULE* mod = &fm.mod;
  /* snapshot of the module and of the precomputed objects (frame condition) */
  vf_modsnap snap;
  vf_snap(&snap, mod);
#ifdef __CPROVER__
  vf_marker = 1;
#endif
#if defined(VF_TSAN_REPLAY) && !defined(__CPROVER__)
  {
    /* native confirmation of a write to shared static storage: the same call from two real threads on one module (first use included) */
    pthread_t th[2];
    for (int t = 0; t < 2; ++t) pthread_create(&th[t], 0, vf_api_worker, (void*)mod);
    for (int t = 0; t < 2; ++t) pthread_join(th[t], 0);
  }
#else
  api_body(mod);
#endif

  /* frame: the module, its virtual table and every precomputed object are bit-for-bit what they were */
  vf_check_frame(&snap, mod);
  VF_REACH();
}
