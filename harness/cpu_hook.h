/* force-included (-include) in every translation unit built by the checks, together with
 * -D__builtin_cpu_supports=vf_cpu_supports: CPU feature detection of the library is answered by a
 * harness flag, so both dispatch configurations are reachable under the solver and in native
 * replays on one machine.  Nothing in /repo is edited for this. */
#ifndef VF_CPU_HOOK_H
#define VF_CPU_HOOK_H
#ifdef __cplusplus
extern "C" {
#endif
int vf_cpu_supports(const char* feature);
extern int vf_cpu_avx;
#ifdef __cplusplus
}
#endif
#endif
