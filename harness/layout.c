/* C17 (bit-precise part): reim4 block layouts.  Pure data movement: exactly-sized heap buffers, all contents symbolic.
 *   h_extract:  -DFN=<function> -DKINDX= 0 one reim vector  1 contiguous rows  2 rows with stride SL   -DM -DBLK -DNROWS -DSL
 *   h_save:     -DFN=<function> -DM -DBLK
 *   h_cplx:     reim4_to_cplx(reim4_from_cplx(x)) == x on all m complex numbers, tables from the real init functions; -DM -DAVX
 *               -DFROMFN / -DTOFN override the kernels (direct call with tables->m = M)
 */
#include "common.h"
#include "reim4/reim4_arithmetic.h"
#include "reim4/reim4_fftvec_internal.h"
#include "reim4/reim4_fftvec_private.h"

#ifndef M
#define M 8
#endif
#ifndef BLK
#define BLK 0
#endif
#ifndef NROWS
#define NROWS 1
#endif
#ifndef SL
#define SL (2 * M)
#endif
#ifndef KINDX
#define KINDX 0
#endif
#ifndef AVX
#define AVX 0
#endif

void* init_reim4_from_cplx_precomp(REIM4_FROM_CPLX_PRECOMP* res, uint32_t m);
void* init_reim4_to_cplx_precomp(REIM4_TO_CPLX_PRECOMP* res, uint32_t m);
EXPORT void reim4_extract_1blk_from_contiguous_reim_sl_ref(uint64_t m, uint64_t sl, uint64_t nrows, uint64_t blk, double* const dst, const double* const src);
EXPORT void reim4_extract_1blk_from_contiguous_reim_sl_avx(uint64_t m, uint64_t sl, uint64_t nrows, uint64_t blk, double* const dst, const double* const src);

#if defined(FN) && !defined(SAVE)
void h_extract(void) {
#if KINDX == 0
  const uint64_t nrows = 1, stride = 2 * M;
#elif KINDX == 1
  const uint64_t nrows = NROWS, stride = 2 * M;
#else
  const uint64_t nrows = NROWS, stride = SL;
#endif
  const uint64_t src_words = nrows ? (nrows - 1) * stride + 2 * M : 0;
  uint64_t* src = vf_alloc_words(src_words);
  uint64_t* src0 = vf_snapshot(src, src_words);
  uint64_t* dst = vf_alloc_words(8 * nrows);
#if KINDX == 0
  FN(M, BLK, (double*)dst, (const double*)src);
#elif KINDX == 1
  FN(M, NROWS, BLK, (double*)dst, (const double*)src);
#else
  FN(M, SL, NROWS, BLK, (double*)dst, (const double*)src);
#endif
  for (uint64_t r = 0; r < nrows; ++r)
    for (uint64_t c = 0; c < 4; ++c) {
      VF_ASSERT(dst[8 * r + c] == src0[r * stride + 4 * BLK + c], "extract: real parts of evaluations 4b..4b+3");
      VF_ASSERT(dst[8 * r + 4 + c] == src0[r * stride + M + 4 * BLK + c], "extract: imaginary parts of evaluations 4b..4b+3");
    }
  for (uint64_t w = 0; w < src_words; ++w) VF_ASSERT(src[w] == src0[w], "extract: source untouched");
  VF_REACH();
}
#endif

#if defined(FN) && defined(SAVE)
void h_save(void) {
  uint64_t* dst = vf_alloc_words(2 * M);
  uint64_t* dst0 = vf_snapshot(dst, 2 * M);
  uint64_t* src = vf_alloc_words(8);
  uint64_t* src0 = vf_snapshot(src, 8);
  FN(M, BLK, (double*)dst, (const double*)src);
  for (uint64_t w = 0; w < 2 * M; ++w) {
    if (w >= 4 * BLK && w < 4 * BLK + 4)
      VF_ASSERT(dst[w] == src0[w - 4 * BLK], "save: real parts stored at 4b..4b+3");
    else if (w >= M + 4 * BLK && w < M + 4 * BLK + 4)
      VF_ASSERT(dst[w] == src0[4 + w - M - 4 * BLK], "save: imaginary parts stored at m+4b..m+4b+3");
    else
      VF_ASSERT(dst[w] == dst0[w], "save: every other coefficient of the vector untouched");
  }
  for (uint64_t w = 0; w < 8; ++w) VF_ASSERT(src[w] == src0[w], "save: source block untouched");
  VF_REACH();
}
#endif

void h_cplx(void) {
  vf_cpu_avx = AVX;
  uint64_t* x = vf_alloc_words(2 * M);  /* m complex numbers, interleaved */
  uint64_t* x0 = vf_snapshot(x, 2 * M);
  uint64_t* r4 = vf_alloc_words(2 * M); /* reim4 layout */
  uint64_t* back = vf_alloc_words(2 * M);
  uint64_t* back0 = vf_snapshot(back, 2 * M);
  REIM4_FROM_CPLX_PRECOMP pf;
  REIM4_TO_CPLX_PRECOMP pt;
#ifdef FROMFN
  pf.m = M;
  pf.function = FROMFN;
  pt.m = M;
  pt.function = TOFN;
#else
  /* the documented way to obtain the tables: new_reim4_{from,to}_cplx_precomp(m) = malloc + these init functions */
  VF_ASSERT(init_reim4_from_cplx_precomp(&pf, M) == &pf, "init from_cplx");
  VF_ASSERT(init_reim4_to_cplx_precomp(&pt, M) == &pt, "init to_cplx");
#endif
  reim4_from_cplx(&pf, (double*)r4, x);
  reim4_to_cplx(&pt, back, (const double*)r4);
  for (uint64_t w = 0; w < 2 * M; ++w) {
    VF_ASSERT(back[w] == x0[w], "cplx -> reim4 -> cplx is the identity on all m complex numbers");
    VF_ASSERT(x[w] == x0[w], "conversion source untouched");
  }
  (void)back0;
  VF_REACH();
}
