/* C05, loop structure of vec_znx_normalize_base2k_ref for EVERY (res_size, a_size) up to SMAX in one query, the per-limb primitive kept
 * uninterpreted: znx_normalize is replaced (this harness is linked INSTEAD of coeffs_arithmetic.c) by
 *     digit = D(k, in, carry_in)   carry_out = C(k, in, carry_in)
 * with D, C uninterpreted functions (__CPROVER_uninterpreted_*: equal arguments give equal results, nothing else is known).  The primitive
 * itself is decided for every k and every argument by the prim/ obligations.  Specification: the carry enters at limb a_size-1 as "no carry"
 * and is threaded through every limb down to 0; limb i < res_size receives the digit of limb i; limbs a_size..res_size-1 are zero;
 * nothing else is written.  Sizes, strides and k are symbolic.   -DSMAX=<bound on both sizes>  -DNNV=<ring dimension 1|2> */
#include "common.h"
#include "arithmetic/vec_znx_arithmetic_private.h"
#ifndef SMAX
#define SMAX 10
#endif
#ifndef NNV
#define NNV 1
#endif

#ifdef __CPROVER__
int64_t __CPROVER_uninterpreted_digit(uint64_t k, int64_t in, int64_t cin, int has_cin);
int64_t __CPROVER_uninterpreted_carry(uint64_t k, int64_t in, int64_t cin, int has_cin);
#endif
#if defined(__CPROVER__) && !defined(PROJ)
void znx_normalize(uint64_t nn, uint64_t base_k, int64_t* out, int64_t* carry_out, const int64_t* in, const int64_t* carry_in) {
  for (uint64_t j = 0; j < nn; ++j) {
    const int64_t c = carry_in ? carry_in[j] : 0;
    const int64_t d = __CPROVER_uninterpreted_digit(base_k, in[j], c, carry_in != 0);
    const int64_t co = __CPROVER_uninterpreted_carry(base_k, in[j], c, carry_in != 0);
    if (out) out[j] = d;
    if (carry_out) carry_out[j] = co;
  }
}
void znx_zero_i64_ref(uint64_t nn, int64_t* res) {
  for (uint64_t j = 0; j < nn; ++j) res[j] = 0;
}
#elif !defined(__CPROVER__)
/* native replay: the whole real library is linked; the two functions are the REAL primitive, so the specification below is the real digit
 * expansion and a skipped limb shows whenever it produces a carry */
void znx_normalize(uint64_t nn, uint64_t base_k, int64_t* out, int64_t* carry_out, const int64_t* in, const int64_t* carry_in);
static int64_t __CPROVER_uninterpreted_digit(uint64_t k, int64_t in, int64_t cin, int has_cin) {
  int64_t d, c;
  znx_normalize(1, k, &d, &c, &in, has_cin ? &cin : 0);
  return d;
}
static int64_t __CPROVER_uninterpreted_carry(uint64_t k, int64_t in, int64_t cin, int has_cin) {
  int64_t d, c;
  znx_normalize(1, k, &d, &c, &in, has_cin ? &cin : 0);
  return c;
}
#endif

void h_sched(void) {
  MODULE mod;
  mod.nn = NNV;
  mod.m = NNV >> 1;
  /* -DRSZ / -DASZ fix a size (one obligation per pair); without them the size is symbolic in [0, SMAX] */
#ifdef RSZ
  const uint64_t rsz = RSZ;
#else
  const uint64_t rsz = vf_u64();
#endif
#ifdef ASZ
  const uint64_t asz = ASZ;
#else
  const uint64_t asz = vf_u64();
#endif
  const uint64_t k = vf_u64();
#ifdef FIXED_STRIDES
  const uint64_t rsl = NNV + 1, asl = NNV;
#else
  const uint64_t rsl = NNV + (vf_u64() & 1), asl = NNV + (vf_u64() & 1);
#endif
  VF_ASSUME(rsz <= SMAX && asz <= SMAX && k >= 1 && k <= 62);
  /* maximal-size objects; the limbs beyond the symbolic sizes must keep their prefill */
  int64_t* a = (int64_t*)vf_alloc_words((uint64_t)SMAX * (NNV + 1));
  int64_t* res = (int64_t*)vf_alloc_words((uint64_t)SMAX * (NNV + 1));
  int64_t* a0 = (int64_t*)vf_snapshot((uint64_t*)a, (uint64_t)SMAX * (NNV + 1));
  int64_t* r0 = (int64_t*)vf_snapshot((uint64_t*)res, (uint64_t)SMAX * (NNV + 1));
  uint8_t* tmp = (uint8_t*)vf_alloc_words(NNV);
  vec_znx_normalize_base2k_ref(&mod, k, res, rsz, rsl, a, asz, asl, tmp);
  /* specification */
  for (uint64_t j = 0; j < NNV; ++j) {
    int64_t carry = 0;
    int has = 0;
    for (uint64_t ii = 0; ii < SMAX; ++ii) {
      const uint64_t i = SMAX - 1 - ii;
      if (i >= asz) continue;
      const int64_t in = a0[i * asl + j];
      const int64_t d = __CPROVER_uninterpreted_digit(k, in, carry, has);
      carry = __CPROVER_uninterpreted_carry(k, in, carry, has);
      has = 1;
      if (i < rsz && rsz != 0) VF_ASSERT(res[i * rsl + j] == d, "output limb i is the digit of input limb i with the carry threaded from every lower limb");
    }
  }
  for (uint64_t i = 0; i < SMAX; ++i)
    for (uint64_t j = 0; j < NNV + 1; ++j) {
      const uint64_t w = i * (NNV + 1) + j; /* word index in the maximal object */
      (void)w;
    }
  for (uint64_t i = 0; i < rsz; ++i)
    if (i >= asz)
      for (uint64_t j = 0; j < NNV; ++j) VF_ASSERT(res[i * rsl + j] == 0, "output limbs beyond the input size are zero");
  /* frame: words of res that are not coefficients of limbs < res_size keep their previous contents; a is untouched */
  for (uint64_t w = 0; w < (uint64_t)SMAX * (NNV + 1); ++w) {
    VF_ASSERT(a[w] == a0[w], "input untouched");
    int inside = 0;
    for (uint64_t i = 0; i < SMAX; ++i)
      if (i < rsz && w >= i * rsl && w < i * rsl + NNV) inside = 1;
    if (!inside) VF_ASSERT(res[w] == r0[w], "only the coefficients of the res_size output limbs are written");
  }
  VF_REACH();
}

/* ---- EVERY ring dimension: projection onto ONE symbolic coefficient column, memory modelled by the cells of that column only ---------------------
 * h_sched_proj (-DPROJ): N = 2^lg with lg symbolic in [0, 16], column vf_j symbolic in [0, N), res_size <= SMAX symbolic, a_size = ASZ, k and both
 * strides symbolic.  vec_znx_normalize_base2k_ref itself never dereferences its buffers - it only forms limb pointers and hands them to the elementwise
 * primitive (out[t], carry_out[t] depend on in[t], carry_in[t] only: decided by prim/).  The stand-in for the primitive therefore needs no memory at all:
 * it tracks, as scalars, the cells that belong to column vf_j - one per output limb (address i*res_sl + vf_j) and the scratch cell that currently holds
 * the column's carry - and for every call decides from the pointer OFFSETS alone which of these cells the call's index range covers and which source
 * column lands there: column vf_j (then the uninterpreted digit / carry step is applied) or another column (then the cell is clobbered: arbitrary value).
 * Whatever blocking, tiling or per-dimension path the driver takes, the column's cells must end up as the digit chain of the column's inputs.
 * The buffers are 1-word objects; all pointers are out-of-bounds offsets that are never dereferenced under cbmc (cbmc 6.11 flattens constant-size
 * arrays in its SAT back end - out of memory from 6k words on - and z3 on the array version needed minutes per instance; see DESIGN.md A.5 round 6). */
#ifndef LGMAX
#define LGMAX 16
#endif
static uint64_t vf_j, vf_pasl, vf_prsl;
static const int64_t* vf_pa;
static int64_t* vf_pres;
static int64_t* vf_ptmp;
static int64_t vf_colv[SMAX ? SMAX : 1];  /* column vf_j of the input, limb i */
static int64_t vf_rcell[SMAX ? SMAX : 1]; /* column vf_j of the output, limb i */
static uint64_t vf_caddr;                 /* scratch word that holds the column's carry */
static int64_t vf_cval;
static int vf_cvalid;
#if defined(__CPROVER__) && defined(PROJ)
int64_t nondet_clobber(void);
static uint64_t vf_woff(const void* p) { return (uint64_t)__CPROVER_POINTER_OFFSET(p) / 8; }
void znx_normalize(uint64_t nn, uint64_t base_k, int64_t* out, int64_t* carry_out, const int64_t* in, const int64_t* carry_in) {
  VF_ASSERT(__CPROVER_same_object(in, vf_pa), "the primitive reads limbs of the input vector");
  VF_ASSERT(out == 0 || __CPROVER_same_object(out, vf_pres), "digits are written into the output vector only");
  VF_ASSERT(carry_out == 0 || __CPROVER_same_object(carry_out, vf_ptmp), "carries are written into the scratch only");
  VF_ASSERT(carry_in == 0 || __CPROVER_same_object(carry_in, vf_ptmp), "carries are read from the scratch only");
  /* limb and column of `in` (division-free: the limb index is one of 0..SMAX-1) */
  const uint64_t wi = vf_woff(in);
  uint64_t ci = wi;
  int64_t x = vf_colv[0];
  for (uint64_t q = 1; q < SMAX; ++q)
    if (wi >= q * vf_pasl) {
      ci = wi - q * vf_pasl;
      x = vf_colv[q];
    }
  const uint64_t tj = vf_j - ci;
  const int vj = vf_j >= ci && tj < nn; /* this call processes column vf_j at index tj */
  int64_t c = 0;
  if (carry_in) c = (vf_cvalid && vf_caddr == vf_woff(carry_in) + tj) ? vf_cval : nondet_clobber();
  const int64_t d = __CPROVER_uninterpreted_digit(base_k, x, c, carry_in != 0);
  const int64_t cy = __CPROVER_uninterpreted_carry(base_k, x, c, carry_in != 0);
  if (out) {
    const uint64_t wo = vf_woff(out);
    for (uint64_t i = 0; i < SMAX; ++i) {
      const uint64_t cell = i * vf_prsl + vf_j;
      if (cell >= wo && cell - wo < nn) vf_rcell[i] = (vj && cell - wo == tj) ? d : nondet_clobber();
    }
  }
  if (carry_out) {
    const uint64_t wc = vf_woff(carry_out);
    if (vj) {
      vf_caddr = wc + tj;
      vf_cval = cy;
      vf_cvalid = 1;
    } else if (vf_cvalid && vf_caddr >= wc && vf_caddr - wc < nn)
      vf_cval = nondet_clobber(); /* another column's carry stored over the cell that holds this column's */
  }
}
void znx_zero_i64_ref(uint64_t nn, int64_t* res) {
  VF_ASSERT(__CPROVER_same_object(res, vf_pres), "zero fill goes to the output vector only");
  const uint64_t wo = vf_woff(res);
  for (uint64_t i = 0; i < SMAX; ++i) {
    const uint64_t cell = i * vf_prsl + vf_j;
    if (cell >= wo && cell - wo < nn) vf_rcell[i] = 0;
  }
}
#endif

void h_sched_proj(void) {
  MODULE mod;
  const uint64_t lg = vf_u64();
  VF_ASSUME(lg <= LGMAX);
  const uint64_t nn = UINT64_C(1) << lg;
  mod.nn = nn;
  mod.m = nn >> 1;
  const uint64_t rsz = vf_u64();
  const uint64_t asz = ASZ;
  const uint64_t k = vf_u64();
  const uint64_t rsl = nn + (vf_u64() & 1), asl = nn + (vf_u64() & 1);
  vf_j = vf_u64();
  VF_ASSUME(rsz <= SMAX && k >= 1 && k <= 62 && vf_j < nn);
  for (uint64_t i = 0; i < SMAX; ++i) vf_colv[i] = vf_i64();
  vf_pasl = asl;
  vf_prsl = rsl;
#ifdef __CPROVER__
  /* 1-word objects: under cbmc no buffer word is ever dereferenced (see above) */
  int64_t* a = (int64_t*)malloc(sizeof(int64_t));
  int64_t* res = (int64_t*)malloc(sizeof(int64_t));
  int64_t* tmpw = (int64_t*)malloc(sizeof(int64_t));
  __CPROVER_assume(a != 0 && res != 0 && tmpw != 0);
  for (uint64_t i = 0; i < SMAX; ++i) vf_rcell[i] = nondet_clobber(); /* arbitrary prior contents of the output */
  vf_cvalid = 0;
#else
  /* native replay: the real primitive on full-size buffers; every column carries the same limb values, scratch and result start from non-zero patterns */
  const uint64_t words = (uint64_t)SMAX * (nn + 1) + 1;
  int64_t* a = (int64_t*)malloc(words * sizeof(int64_t));
  int64_t* res = (int64_t*)malloc(words * sizeof(int64_t));
  int64_t* tmpw = (int64_t*)malloc((nn + 1) * sizeof(int64_t));
  for (uint64_t i = 0; i < words; ++i) {
    a[i] = 0;
    res[i] = INT64_C(0x5a5a5a5a5a5a5a5a);
  }
  for (uint64_t i = 0; i < asz; ++i)
    for (uint64_t j = 0; j < nn; ++j) a[i * asl + j] = vf_colv[i];
  for (uint64_t j = 0; j < nn; ++j) tmpw[j] = 1;
#endif
  vf_pa = a;
  vf_pres = res;
  vf_ptmp = tmpw;
  vec_znx_normalize_base2k_ref(&mod, k, res, rsz, rsl, a, asz, asl, (uint8_t*)tmpw);
#ifndef __CPROVER__
  for (uint64_t i = 0; i < SMAX; ++i)
    if (i < rsz) vf_rcell[i] = res[i * rsl + vf_j];
#endif
  int64_t carry = 0;
  int has = 0;
  for (uint64_t ii = 0; ii < SMAX; ++ii) {
    const uint64_t i = SMAX - 1 - ii;
    if (i >= asz) continue;
    const int64_t in = vf_colv[i];
    const int64_t d = __CPROVER_uninterpreted_digit(k, in, carry, has);
    carry = __CPROVER_uninterpreted_carry(k, in, carry, has);
    has = 1;
    if (i < rsz) VF_ASSERT(vf_rcell[i] == d, "every N: column j of output limb i is the digit of column j of input limb i with the carry threaded from every lower limb");
  }
  for (uint64_t i = 0; i < SMAX; ++i)
    if (i >= asz && i < rsz) VF_ASSERT(vf_rcell[i] == 0, "every N: output limbs beyond the input size are zero (column j)");
  VF_REACH();
}
