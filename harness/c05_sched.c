/* C05, loop structure of vec_znx_normalize_base2k_ref for EVERY (res_size, a_size) up to SMAX in one query, the per-limb primitive kept
 * uninterpreted: znx_normalize is replaced (this harness is linked INSTEAD of coeffs_arithmetic.c) by
 *     digit = D(k, in, carry_in)   carry_out = C(k, in, carry_in)
 * with D, C uninterpreted functions (__CPROVER_uninterpreted_*: equal arguments give equal results, nothing else is known).  The primitive
 * itself is decided for every k and every argument by the prim/ obligations.  Specification: the carry enters at limb a_size-1 as "no carry"
 * and is threaded through every limb down to 0; limb i < res_size receives the digit of limb i; limbs a_size..res_size-1 are zero;
 * nothing else is written.  Sizes, strides and k are symbolic.   -DSMAX=<bound on both sizes>  -DNNV=<ring dimension 1|2> */
#include "common.h"
#include "arithmetic/vec_znx_arithmetic_private.h"
#ifndef SMAX
#define SMAX 10
#endif
#ifndef NNV
#define NNV 1
#endif

#ifdef __CPROVER__
int64_t __CPROVER_uninterpreted_digit(uint64_t k, int64_t in, int64_t cin, int has_cin);
int64_t __CPROVER_uninterpreted_carry(uint64_t k, int64_t in, int64_t cin, int has_cin);
void znx_normalize(uint64_t nn, uint64_t base_k, int64_t* out, int64_t* carry_out, const int64_t* in, const int64_t* carry_in) {
  for (uint64_t j = 0; j < nn; ++j) {
    const int64_t c = carry_in ? carry_in[j] : 0;
    const int64_t d = __CPROVER_uninterpreted_digit(base_k, in[j], c, carry_in != 0);
    const int64_t co = __CPROVER_uninterpreted_carry(base_k, in[j], c, carry_in != 0);
    if (out) out[j] = d;
    if (carry_out) carry_out[j] = co;
  }
}
void znx_zero_i64_ref(uint64_t nn, int64_t* res) {
  for (uint64_t j = 0; j < nn; ++j) res[j] = 0;
}
#else
/* native replay: the whole real library is linked; the two functions are the REAL primitive, so the specification below is the real digit
 * expansion and a skipped limb shows whenever it produces a carry */
void znx_normalize(uint64_t nn, uint64_t base_k, int64_t* out, int64_t* carry_out, const int64_t* in, const int64_t* carry_in);
static int64_t __CPROVER_uninterpreted_digit(uint64_t k, int64_t in, int64_t cin, int has_cin) {
  int64_t d, c;
  znx_normalize(1, k, &d, &c, &in, has_cin ? &cin : 0);
  return d;
}
static int64_t __CPROVER_uninterpreted_carry(uint64_t k, int64_t in, int64_t cin, int has_cin) {
  int64_t d, c;
  znx_normalize(1, k, &d, &c, &in, has_cin ? &cin : 0);
  return c;
}
#endif

void h_sched(void) {
  MODULE mod;
  mod.nn = NNV;
  mod.m = NNV >> 1;
  /* -DRSZ / -DASZ fix a size (one obligation per pair); without them the size is symbolic in [0, SMAX] */
#ifdef RSZ
  const uint64_t rsz = RSZ;
#else
  const uint64_t rsz = vf_u64();
#endif
#ifdef ASZ
  const uint64_t asz = ASZ;
#else
  const uint64_t asz = vf_u64();
#endif
  const uint64_t k = vf_u64();
#ifdef FIXED_STRIDES
  const uint64_t rsl = NNV + 1, asl = NNV;
#else
  const uint64_t rsl = NNV + (vf_u64() & 1), asl = NNV + (vf_u64() & 1);
#endif
  VF_ASSUME(rsz <= SMAX && asz <= SMAX && k >= 1 && k <= 62);
  /* maximal-size objects; the limbs beyond the symbolic sizes must keep their prefill */
  int64_t* a = (int64_t*)vf_alloc_words((uint64_t)SMAX * (NNV + 1));
  int64_t* res = (int64_t*)vf_alloc_words((uint64_t)SMAX * (NNV + 1));
  int64_t* a0 = (int64_t*)vf_snapshot((uint64_t*)a, (uint64_t)SMAX * (NNV + 1));
  int64_t* r0 = (int64_t*)vf_snapshot((uint64_t*)res, (uint64_t)SMAX * (NNV + 1));
  uint8_t* tmp = (uint8_t*)vf_alloc_words(NNV);
  vec_znx_normalize_base2k_ref(&mod, k, res, rsz, rsl, a, asz, asl, tmp);
  /* specification */
  for (uint64_t j = 0; j < NNV; ++j) {
    int64_t carry = 0;
    int has = 0;
    for (uint64_t ii = 0; ii < SMAX; ++ii) {
      const uint64_t i = SMAX - 1 - ii;
      if (i >= asz) continue;
      const int64_t in = a0[i * asl + j];
      const int64_t d = __CPROVER_uninterpreted_digit(k, in, carry, has);
      carry = __CPROVER_uninterpreted_carry(k, in, carry, has);
      has = 1;
      if (i < rsz && rsz != 0) VF_ASSERT(res[i * rsl + j] == d, "output limb i is the digit of input limb i with the carry threaded from every lower limb");
    }
  }
  for (uint64_t i = 0; i < SMAX; ++i)
    for (uint64_t j = 0; j < NNV + 1; ++j) {
      const uint64_t w = i * (NNV + 1) + j; /* word index in the maximal object */
      (void)w;
    }
  for (uint64_t i = 0; i < rsz; ++i)
    if (i >= asz)
      for (uint64_t j = 0; j < NNV; ++j) VF_ASSERT(res[i * rsl + j] == 0, "output limbs beyond the input size are zero");
  /* frame: words of res that are not coefficients of limbs < res_size keep their previous contents; a is untouched */
  for (uint64_t w = 0; w < (uint64_t)SMAX * (NNV + 1); ++w) {
    VF_ASSERT(a[w] == a0[w], "input untouched");
    int inside = 0;
    for (uint64_t i = 0; i < SMAX; ++i)
      if (i < rsz && w >= i * rsl && w < i * rsl + NNV) inside = 1;
    if (!inside) VF_ASSERT(res[w] == r0[w], "only the coefficients of the res_size output limbs are written");
  }
  VF_REACH();
}
