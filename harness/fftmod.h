/* Construction of *_PRECOMP objects and of an FFT64 MODULE from the dumped tables (vf_tables.h):
 * function pointers are the ones the REAL builders selected for (m, cpu flag) natively, tables are
 * the real tables of the working tree.  -DM=<complex dimension> -DAVX=0|1 are compile-time. */
#ifndef VF_FFTMOD_H
#define VF_FFTMOD_H
#include "common.h"
#include "vf_tables.h"
#include "reim/reim_fft_internal.h"
#include "reim/reim_fft_private.h"
#include "cplx/cplx_fft_internal.h"
#include "cplx/cplx_fft_private.h"

#ifndef AVX
#define AVX 0
#endif
#define VF_CAT4_(a, b, c, d) a##b##c##d
#define VF_CAT4(a, b, c, d) VF_CAT4_(a, b, c, d)
#define VF_CAT2_(a, b) a##b
#define VF_CAT2(a, b) VF_CAT2_(a, b)
#define VFT_FUNC(what, m) VF_CAT4(VFT_##what##_FUNC_, m, _AVX, AVX)
#define VFT_OMG(what, m) VF_CAT2(VFT_##what##_OMG_, m)

EXPORT void cplx_fft_avx2_fma(const CPLX_FFT_PRECOMP*, void*);
EXPORT void cplx_ifft_avx2_fma(const CPLX_IFFT_PRECOMP*, void*);

#ifdef __CPROVER__
/* the reference drivers call libm log2(m) at run time to choose their pass structure; exact on
 * powers of two (which is what glibc returns for them), anything else is outside the claim */
double log2(double x) {
  for (int k = 0; k < 40; ++k)
    if (x == (double)(UINT64_C(1) << k)) return (double)k;
  __CPROVER_assert(0, "log2 stub called on a non power of two");
  return 0.0;
}
#endif

#define VF_REIM_FFT_PRECOMP(p_, mm_)                 \
  REIM_FFT_PRECOMP p_;                             \
  p_.function = VFT_FUNC(REIM_FFT, mm_);             \
  p_.m = mm_;                                        \
  p_.buf_size = 0;                                 \
  p_.powomegas = (double*)VFT_OMG(REIM_FFT, mm_);    \
  p_.aligned_buffers = 0
#define VF_REIM_IFFT_PRECOMP(p_, mm_)                 \
  REIM_IFFT_PRECOMP p_;                             \
  p_.function = VFT_FUNC(REIM_IFFT, mm_);             \
  p_.m = mm_;                                        \
  p_.buf_size = 0;                                 \
  p_.powomegas = (double*)VFT_OMG(REIM_IFFT, mm_);    \
  p_.aligned_buffers = 0
#define VF_CPLX_FFT_PRECOMP(p_, mm_)                 \
  CPLX_FFT_PRECOMP p_;                             \
  p_.function = VFT_FUNC(CPLX_FFT, mm_);             \
  p_.m = mm_;                                        \
  p_.buf_size = 0;                                 \
  p_.powomegas = (double*)VFT_OMG(CPLX_FFT, mm_);    \
  p_.aligned_buffers = 0
#define VF_CPLX_IFFT_PRECOMP(p_, mm_)                 \
  CPLX_IFFT_PRECOMP p_;                             \
  p_.function = VFT_FUNC(CPLX_IFFT, mm_);             \
  p_.m = mm_;                                        \
  p_.buf_size = 0;                                 \
  p_.powomegas = (double*)VFT_OMG(CPLX_IFFT, mm_);    \
  p_.aligned_buffers = 0
#endif
