/* C03 / C04: q120 NTT / iNTT on the dumped precomputation of the working tree.
 *   -DN=<n>   -DDIR= 0 forward  1 inverse  2 forward then inverse (round trip)
 * VF_X: the 4n input lanes (any 64-bit values), VF_OUT: the 4n output lanes. */
#include "common.h"
#include "vf_tables.h"
#include "q120/q120_ntt.h" /* q120_ntt_private.h (no include guard) comes with vf_tables.h */

#ifndef N
#define N 4
#endif
#ifndef DIR
#define DIR 0
#endif
#define VF_CAT2_(a, b) a##b
#define VF_CAT2(a, b) VF_CAT2_(a, b)

uint64_t VF_X[4 * N];
uint64_t VF_OUT[4 * N];
static const uint64_t QS[4] = {VFT_Q1, VFT_Q2, VFT_Q3, VFT_Q4};

#ifndef LEVELS
static void mk_precomp(q120_ntt_precomp* p, int inverse) {
  p->n = N;
  if (!inverse) {
    p->level_metadata = (q120_ntt_step_precomp*)VF_CAT2(VFT_NTT_META_, N);
    p->powomega = (uint64_t*)VF_CAT2(VFT_NTT_POW_, N);
    p->reduc_metadata = VF_CAT2(VFT_NTT_REDUC_, N);
    p->input_bit_size = VF_CAT2(VFT_NTT_INBITS_, N);
    p->output_bit_size = VF_CAT2(VFT_NTT_OUTBITS_, N);
  } else {
    p->level_metadata = (q120_ntt_step_precomp*)VF_CAT2(VFT_INTT_META_, N);
    p->powomega = (uint64_t*)VF_CAT2(VFT_INTT_POW_, N);
    p->reduc_metadata = VF_CAT2(VFT_INTT_REDUC_, N);
    p->input_bit_size = VF_CAT2(VFT_INTT_INBITS_, N);
    p->output_bit_size = VF_CAT2(VFT_INTT_OUTBITS_, N);
  }
}

#endif
#ifndef __CPROVER__
static uint64_t mulmod(uint64_t a, uint64_t b, uint64_t q) { return (uint64_t)(((unsigned __int128)a * b) % q); }
static uint64_t powmod(uint64_t a, uint64_t e, uint64_t q) {
  uint64_t r = 1;
  a %= q;
  while (e) {
    if (e & 1) r = mulmod(r, a, q);
    a = mulmod(a, a, q);
    e >>= 1;
  }
  return r;
}
static const uint64_t OMEGAS[4] = {OMEGA1, OMEGA2, OMEGA3, OMEGA4};
#endif

#ifndef LEVELS
void h_ntt(void) {
  uint64_t* data = vf_alloc_words_raw(4 * N);
  for (unsigned i = 0; i < 4 * N; ++i) {
    VF_X[i] = vf_u64();
    data[i] = VF_X[i];
  }
  q120_ntt_precomp pf, pi;
#if DIR == 0 || DIR == 2
  mk_precomp(&pf, 0);
  q120_ntt_bb_avx2(&pf, (q120b*)data);
#endif
#if DIR == 1 || DIR == 2
  mk_precomp(&pi, 1);
  q120_intt_bb_avx2(&pi, (q120b*)data);
#endif
  for (unsigned i = 0; i < 4 * N; ++i) VF_OUT[i] = data[i];
#ifndef __CPROVER__
  for (unsigned k = 0; k < 4; ++k) {
    uint64_t q = QS[k];
    uint64_t w = powmod(OMEGAS[k], (1u << 16) / N, q); /* primitive 2n-th root */
#if DIR == 2
    for (unsigned i = 0; i < N; ++i) VF_ASSERT(VF_OUT[4 * i + k] % q == VF_X[4 * i + k] % q, "intt(ntt(x)) congruent to x lane by lane");
#elif DIR == 0
    /* the outputs are the evaluations of the input polynomial at the n primitive 2n-th roots, in some order */
    unsigned char used[N ? N : 1];
    memset(used, 0, sizeof used);
    for (unsigned e = 0; e < N; ++e) {
      uint64_t root = powmod(w, 2 * e + 1, q), acc = 0, pw = 1;
      for (unsigned j = 0; j < N; ++j) {
        acc = (acc + mulmod(VF_X[4 * j + k] % q, pw, q)) % q;
        pw = mulmod(pw, root, q);
      }
      int found = 0;
      for (unsigned p = 0; p < N && !found; ++p)
        if (!used[p] && VF_OUT[4 * p + k] % q == acc) used[p] = found = 1;
      VF_ASSERT(found, "forward NTT output is the evaluation map at the primitive 2n-th roots (some order)");
    }
#else
    /* inverse alone: n * x_j == sum_p y_p * root_p^-j for the evaluation order of the forward transform is checked through
     * the round trip; here only that the map is invertible on this input is not decidable natively -> no oracle */
    (void)w;
#endif
  }
#endif
  VF_REACH();
}

#endif
/* ---- C04: per-level interval induction for large n (-DLEVELS -DN=<n up to 65536> -DDIR=0|1).
 * The real level functions of q120_ntt_avx2.c are applied, one level at a time, to a block of 4 (resp. 2 for the nn=2 level) fresh
 * symbolic vectors with the level's real metadata entry (dumped from the builder of the working tree) and symbolic twiddle words
 * (t1 << 32) + t.  The analysis (vf.alg.q120:check_ntt_levels) bounds the inputs of level l by the interval it derived for the outputs
 * of level l-1 and the twiddle halves by the maxima of the real table: every butterfly of the real transform (the i = 0 kind without
 * twiddle and the i >= 1 kind with twiddle) is an instance of the block's. */
#ifdef LEVELS
#include <immintrin.h>
void ntt_iter_first(__m256i* const begin, const __m256i* const end, const q120_ntt_step_precomp* const itData, const __m256i* powomega);
void ntt_iter_first_red(__m256i* const begin, const __m256i* const end, const q120_ntt_step_precomp* const itData, const __m256i* powomega,
                        const q120_ntt_reduc_step_precomp* const reduc_precomp);
void ntt_iter(const uint64_t nn, __m256i* const begin, const __m256i* const end, const q120_ntt_step_precomp* const itData, const __m256i* const powomega);
void ntt_iter_red(const uint64_t nn, __m256i* const begin, const __m256i* const end, const q120_ntt_step_precomp* const itData, const __m256i* const powomega,
                  const q120_ntt_reduc_step_precomp* const reduc_precomp);
void intt_iter(const uint64_t nn, __m256i* const begin, const __m256i* const end, const q120_ntt_step_precomp* const itData, const __m256i* const powomega);
void intt_iter_red(const uint64_t nn, __m256i* const begin, const __m256i* const end, const q120_ntt_step_precomp* const itData, const __m256i* const powomega,
                   const q120_ntt_reduc_step_precomp* const reduc_precomp);
#if DIR == 0
#define NLEV VF_CAT2(VFT_NTT_NLEV_, N)
#define LMETA VF_CAT2(VFT_NTT_META_, N)
#define LREDUC VF_CAT2(VFT_NTT_REDUC_, N)
#else
#define NLEV VF_CAT2(VFT_INTT_NLEV_, N)
#define LMETA VF_CAT2(VFT_INTT_META_, N)
#define LREDUC VF_CAT2(VFT_INTT_REDUC_, N)
#endif
uint64_t VF_LX[16 * NLEV], VF_LT[16 * NLEV], VF_LT1[16 * NLEV], VF_LOUT[16 * NLEV];
unsigned VF_LBLK[NLEV]; /* vectors of the block that the level function was run on */

void h_ntt_levels(void) {
  const q120_ntt_step_precomp* meta = LMETA;
  q120_ntt_reduc_step_precomp reduc = LREDUC;
  for (unsigned l = 0; l < NLEV; ++l) {
    uint64_t* data = vf_alloc_words_raw(16);
    uint64_t* pw = vf_alloc_words_raw(16);
    for (unsigned i = 0; i < 16; ++i) {
      data[i] = VF_LX[16 * l + i] = vf_u64();
      VF_LT[16 * l + i] = vf_u64();
      VF_LT1[16 * l + i] = vf_u64();
#ifndef __CPROVER__
      /* native replay: the high half is what the real builder stores for this low half */
      VF_LT[16 * l + i] %= QS[i % 4];
      VF_LT1[16 * l + i] = (VF_LT[16 * l + i] << meta[l].half_bs) % QS[i % 4];
#endif
      pw[i] = (VF_LT1[16 * l + i] << 32) + VF_LT[16 * l + i];
    }
    unsigned blk = 4;
    __m256i* b = (__m256i*)data;
#if DIR == 0
    if (l == 0) {
      ntt_iter_first(b, b + 4, meta, (const __m256i*)pw);
    } else {
      const uint64_t nn_real = (uint64_t)N >> (l - 1);
      blk = nn_real >= 4 ? 4 : 2;
      if (meta[l].reduce)
        ntt_iter_red(blk, b, b + blk, meta + l, (const __m256i*)pw, &reduc);
      else
        ntt_iter(blk, b, b + blk, meta + l, (const __m256i*)pw);
    }
#else
    if (l + 1 < NLEV) {
      const uint64_t nn_real = (uint64_t)2 << l;
      blk = nn_real >= 4 ? 4 : 2;
      if (meta[l].reduce)
        intt_iter_red(blk, b, b + blk, meta + l, (const __m256i*)pw, &reduc);
      else
        intt_iter(blk, b, b + blk, meta + l, (const __m256i*)pw);
    } else {
      if (meta[l].reduce)
        ntt_iter_first_red(b, b + 4, meta + l, (const __m256i*)pw, &reduc);
      else
        ntt_iter_first(b, b + 4, meta + l, (const __m256i*)pw);
    }
#endif
    VF_LBLK[l] = blk;
    for (unsigned i = 0; i < 16; ++i) VF_LOUT[16 * l + i] = data[i];
  }
#ifndef __CPROVER__
  /* Native confirmation of a failed level step: the step's envelope is an over-approximation, so a violation is only reported if the REAL
   * whole transform of size N (tables from the real builder) goes wrong on some input.  Oracle independent of the output order: the
   * transform is linear modulo each prime, so T(x) and T(x mod q) must agree modulo q lane by lane - unless an operation wrapped on the
   * large operands.  Inputs: the worst-case patterns of the property (all-ones, alternating extremes, just below multiples of q,
   * single maximal lane) and pseudo-random lanes seeded by the replay words. */
  {
    q120_ntt_precomp* pc = DIR == 0 ? q120_new_ntt_bb_precomp(N) : q120_new_intt_bb_precomp(N);
    uint64_t* x = (uint64_t*)malloc(4 * (size_t)N * 8);
    uint64_t* y = (uint64_t*)malloc(4 * (size_t)N * 8);
    uint64_t st = 88172645463325252ull ^ VF_LX[0];
    for (int trial = 0; trial < 40 + 4 * 17; ++trial) {
      for (uint64_t i = 0; i < 4 * (uint64_t)N; ++i) {
        st ^= st << 13, st ^= st >> 7, st ^= st << 17;
        uint64_t v;
        if (trial >= 40) {
          /* butterfly-shaped extremes for every level: blocks of 2^t coefficients alternately maximal and zero (one operand of every butterfly of
           * that level maximal, its partner zero), both phases, and the same with "just below a multiple of q" as the maximal value */
          const unsigned t = (unsigned)(trial - 40) / 4, ph = (unsigned)(trial - 40) & 1, kind = ((unsigned)(trial - 40) >> 1) & 1;
          const uint64_t big = kind ? (~UINT64_C(0) / QS[i % 4]) * QS[i % 4] - 1 : ~UINT64_C(0);
          v = ((((i / 4) >> t) & 1) == ph) ? big : 0;
          x[i] = v;
          y[i] = v % QS[i % 4];
          continue;
        }
        switch (trial) {
          case 0: v = ~UINT64_C(0); break;
          case 1: v = ((i / 4) & 1) ? 0 : ~UINT64_C(0); break;
          case 2: v = ((i / 4) & 1) ? ~UINT64_C(0) : 0; break;
          case 3: v = (~UINT64_C(0) / QS[i % 4]) * QS[i % 4] - 1; break;
          case 4: v = (i / 4 == 0) ? ~UINT64_C(0) : 0; break;
          case 5: v = (i / 4 == (uint64_t)N - 1) ? ~UINT64_C(0) : 0; break;
          case 6: v = (st & 1) ? ~UINT64_C(0) : 0; break;
          case 7: v = (st & 1) ? ~UINT64_C(0) - (st >> 40) : (st >> 40); break;
          default: v = st; break;
        }
        x[i] = v;
        y[i] = v % QS[i % 4];
      }
      if (DIR == 0) {
        q120_ntt_bb_avx2(pc, (q120b*)x);
        q120_ntt_bb_avx2(pc, (q120b*)y);
      } else {
        q120_intt_bb_avx2(pc, (q120b*)x);
        q120_intt_bb_avx2(pc, (q120b*)y);
      }
      for (uint64_t i = 0; i < 4 * (uint64_t)N; ++i)
        VF_ASSERT(x[i] % QS[i % 4] == y[i] % QS[i % 4], "whole transform: T(x) congruent to T(x mod q) lane by lane (a lazy operation wrapped on large operands)");
    }
    free(x);
    free(y);
  }
#endif
  VF_REACH();
}
#endif
