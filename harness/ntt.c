/* C03 / C04: q120 NTT / iNTT on the dumped precomputation of the working tree.
 *   -DN=<n>   -DDIR= 0 forward  1 inverse  2 forward then inverse (round trip)
 * VF_X: the 4n input lanes (any 64-bit values), VF_OUT: the 4n output lanes. */
#include "common.h"
#include "vf_tables.h"
#include "q120/q120_ntt.h" /* q120_ntt_private.h (no include guard) comes with vf_tables.h */

#ifndef N
#define N 4
#endif
#ifndef DIR
#define DIR 0
#endif
#define VF_CAT2_(a, b) a##b
#define VF_CAT2(a, b) VF_CAT2_(a, b)

uint64_t VF_X[4 * N];
uint64_t VF_OUT[4 * N];
static const uint64_t QS[4] = {VFT_Q1, VFT_Q2, VFT_Q3, VFT_Q4};

static void mk_precomp(q120_ntt_precomp* p, int inverse) {
  p->n = N;
  if (!inverse) {
    p->level_metadata = (q120_ntt_step_precomp*)VF_CAT2(VFT_NTT_META_, N);
    p->powomega = (uint64_t*)VF_CAT2(VFT_NTT_POW_, N);
    p->reduc_metadata = VF_CAT2(VFT_NTT_REDUC_, N);
    p->input_bit_size = VF_CAT2(VFT_NTT_INBITS_, N);
    p->output_bit_size = VF_CAT2(VFT_NTT_OUTBITS_, N);
  } else {
    p->level_metadata = (q120_ntt_step_precomp*)VF_CAT2(VFT_INTT_META_, N);
    p->powomega = (uint64_t*)VF_CAT2(VFT_INTT_POW_, N);
    p->reduc_metadata = VF_CAT2(VFT_INTT_REDUC_, N);
    p->input_bit_size = VF_CAT2(VFT_INTT_INBITS_, N);
    p->output_bit_size = VF_CAT2(VFT_INTT_OUTBITS_, N);
  }
}

#ifndef __CPROVER__
static uint64_t mulmod(uint64_t a, uint64_t b, uint64_t q) { return (uint64_t)(((unsigned __int128)a * b) % q); }
static uint64_t powmod(uint64_t a, uint64_t e, uint64_t q) {
  uint64_t r = 1;
  a %= q;
  while (e) {
    if (e & 1) r = mulmod(r, a, q);
    a = mulmod(a, a, q);
    e >>= 1;
  }
  return r;
}
static const uint64_t OMEGAS[4] = {OMEGA1, OMEGA2, OMEGA3, OMEGA4};
#endif

void h_ntt(void) {
  uint64_t* data = vf_alloc_words_raw(4 * N);
  for (unsigned i = 0; i < 4 * N; ++i) {
    VF_X[i] = vf_u64();
    data[i] = VF_X[i];
  }
  q120_ntt_precomp pf, pi;
#if DIR == 0 || DIR == 2
  mk_precomp(&pf, 0);
  q120_ntt_bb_avx2(&pf, (q120b*)data);
#endif
#if DIR == 1 || DIR == 2
  mk_precomp(&pi, 1);
  q120_intt_bb_avx2(&pi, (q120b*)data);
#endif
  for (unsigned i = 0; i < 4 * N; ++i) VF_OUT[i] = data[i];
#ifndef __CPROVER__
  for (unsigned k = 0; k < 4; ++k) {
    uint64_t q = QS[k];
    uint64_t w = powmod(OMEGAS[k], (1u << 16) / N, q); /* primitive 2n-th root */
#if DIR == 2
    for (unsigned i = 0; i < N; ++i) VF_ASSERT(VF_OUT[4 * i + k] % q == VF_X[4 * i + k] % q, "intt(ntt(x)) congruent to x lane by lane");
#elif DIR == 0
    /* the outputs are the evaluations of the input polynomial at the n primitive 2n-th roots, in some order */
    unsigned char used[N ? N : 1];
    memset(used, 0, sizeof used);
    for (unsigned e = 0; e < N; ++e) {
      uint64_t root = powmod(w, 2 * e + 1, q), acc = 0, pw = 1;
      for (unsigned j = 0; j < N; ++j) {
        acc = (acc + mulmod(VF_X[4 * j + k] % q, pw, q)) % q;
        pw = mulmod(pw, root, q);
      }
      int found = 0;
      for (unsigned p = 0; p < N && !found; ++p)
        if (!used[p] && VF_OUT[4 * p + k] % q == acc) used[p] = found = 1;
      VF_ASSERT(found, "forward NTT output is the evaluation map at the primitive 2n-th roots (some order)");
    }
#else
    /* inverse alone: n * x_j == sum_p y_p * root_p^-j for the evaluation order of the forward transform is checked through
     * the round trip; here only that the map is invertible on this input is not decidable natively -> no oracle */
    (void)w;
#endif
  }
#endif
  VF_REACH();
}
