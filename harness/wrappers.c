/* C14 / C11: the public constructors new_*_precomp are thin wrappers (malloc + init_*, freed on failure): the object they return carries exactly what
 * init_* computes for the SAME arguments - every field compared bit for bit - for symbolic log2bound / log2overhead, both cpu flags; failure (m not a
 * power of two) returns NULL; --memory-leak-check: nothing allocated here is live at the end.
 *   -DKIND=0 reim_from_znx64 1 reim_to_znx64 2 reim_to_tnx 3 cplx_to_tnx32 4 reim4_from_cplx 5 reim4_to_cplx 6 reim4_fftvec_mul 7 reim4_fftvec_addmul
 *           8 cplx_fftvec_mul 9 cplx_fftvec_addmul 10 cplx_from_znx32 11 cplx_from_tnx32      -DM -DAVX -DDIVLOG */
#include "common.h"
#include "reim/reim_fft_internal.h"
#include "reim/reim_fft_private.h"
#include "reim4/reim4_fftvec_internal.h"
#include "reim4/reim4_fftvec_private.h"
#include "cplx/cplx_fft_internal.h"
#include "cplx/cplx_fft_private.h"
#ifndef KIND
#define KIND 2
#endif
#ifndef M
#define M 8
#endif
#ifndef AVX
#define AVX 0
#endif
#ifndef DIVLOG
#define DIVLOG 3
#endif
void* init_reim_from_znx64_precomp(REIM_FROM_ZNX64_PRECOMP* const res, uint32_t m, uint32_t log2bound);
void* init_reim_to_znx64_precomp(REIM_TO_ZNX64_PRECOMP* const res, uint32_t m, double divisor, uint32_t log2bound);
void* init_reim_to_tnx_precomp(REIM_TO_TNX_PRECOMP* const res, uint32_t m, double divisor, uint32_t log2overhead);
void* init_cplx_to_tnx32_precomp(CPLX_TO_TNX32_PRECOMP* res, uint32_t m, double divisor, uint32_t log2overhead);
void* init_reim4_from_cplx_precomp(REIM4_FROM_CPLX_PRECOMP* res, uint32_t m);
void* init_reim4_to_cplx_precomp(REIM4_TO_CPLX_PRECOMP* res, uint32_t m);
void* init_reim4_fftvec_mul_precomp(REIM4_FFTVEC_MUL_PRECOMP* res, uint32_t m);
void* init_reim4_fftvec_addmul_precomp(REIM4_FFTVEC_ADDMUL_PRECOMP* res, uint32_t m);
EXPORT void* init_cplx_fftvec_addmul_precomp(CPLX_FFTVEC_ADDMUL_PRECOMP* r, uint32_t m);
void* init_cplx_from_znx32_precomp(CPLX_FROM_ZNX32_PRECOMP* res, uint32_t m);
void* init_cplx_from_tnx32_precomp(CPLX_FROM_TNX32_PRECOMP* res, uint32_t m);
CPLX_FROM_ZNX32_PRECOMP* new_cplx_from_znx32_precomp(uint32_t m);
CPLX_FROM_TNX32_PRECOMP* new_cplx_from_tnx32_precomp(uint32_t m);
EXPORT void* init_cplx_fftvec_mul_precomp(CPLX_FFTVEC_MUL_PRECOMP* r, uint32_t m);

#ifdef __CPROVER__
void* aligned_alloc(size_t alignment, size_t size) {
  (void)alignment;
  return malloc(size);
}
#endif
static uint64_t bits(double x) {
  uint64_t u;
  memcpy(&u, &x, 8);
  return u;
}
static double pow2(int e) {
  union {
    double d;
    uint64_t u;
  } c;
  c.u = (uint64_t)(1023 + e) << 52;
  return c.d;
}
#define SAME_FN(p, q) VF_ASSERT((void*)(p)->function == (void*)(q).function && (p)->m == (q).m, "constructor result = init result: kernel and dimension")

void h_wrappers(void) {
  vf_cpu_avx = AVX;
  const uint32_t par = (uint32_t)vf_u64(); /* log2bound / log2overhead */
  const double d = pow2(DIVLOG);
  (void)d;
#if KIND == 0
  VF_ASSUME(par <= 50);
  REIM_FROM_ZNX64_PRECOMP q, *p = new_reim_from_znx64_precomp(M, par);
  VF_ASSERT(p && init_reim_from_znx64_precomp(&q, M, par) == &q, "both succeed");
  SAME_FN(p, q);
#elif KIND == 1
  VF_ASSUME(par <= 64);
  REIM_TO_ZNX64_PRECOMP q, *p = new_reim_to_znx64_precomp(M, d, par);
  VF_ASSERT(p && init_reim_to_znx64_precomp(&q, M, d, par) == &q, "both succeed");
  SAME_FN(p, q);
  VF_ASSERT(bits(p->divisor) == bits(q.divisor), "divisor");
#elif KIND == 2
  VF_ASSUME(par <= 48);
  REIM_TO_TNX_PRECOMP q, *p = new_reim_to_tnx_precomp(M, d, par);
  VF_ASSERT(p && init_reim_to_tnx_precomp(&q, M, d, par) == &q, "both succeed");
  SAME_FN(p, q);
  VF_ASSERT(bits(p->divisor) == bits(q.divisor) && p->log2overhead == q.log2overhead && bits(p->add_cst) == bits(q.add_cst) && p->mask_and == q.mask_and &&
                p->mask_or == q.mask_or && bits(p->sub_cst) == bits(q.sub_cst),
            "constructor result = init result for the same (m, divisor, log2overhead): every constant");
  VF_ASSERT(p->log2overhead == par, "the requested log2overhead is the one recorded");
#elif KIND == 3
  VF_ASSUME(par <= 18);
  CPLX_TO_TNX32_PRECOMP q, *p = new_cplx_to_tnx32_precomp(M, d, par);
  VF_ASSERT(p && init_cplx_to_tnx32_precomp(&q, M, d, par) == &q, "both succeed");
  SAME_FN(p, q);
  VF_ASSERT(bits(p->divisor) == bits(q.divisor), "divisor");
#elif KIND == 4
  REIM4_FROM_CPLX_PRECOMP q, *p = new_reim4_from_cplx_precomp(M);
  VF_ASSERT(p && init_reim4_from_cplx_precomp(&q, M) == &q, "both succeed");
  SAME_FN(p, q);
#elif KIND == 5
  REIM4_TO_CPLX_PRECOMP q, *p = new_reim4_to_cplx_precomp(M);
  VF_ASSERT(p && init_reim4_to_cplx_precomp(&q, M) == &q, "both succeed");
  SAME_FN(p, q);
#elif KIND == 6
  REIM4_FFTVEC_MUL_PRECOMP q, *p = new_reim4_fftvec_mul_precomp(M);
  VF_ASSERT(p && init_reim4_fftvec_mul_precomp(&q, M) == &q, "both succeed");
  SAME_FN(p, q);
#elif KIND == 7
  REIM4_FFTVEC_ADDMUL_PRECOMP q, *p = new_reim4_fftvec_addmul_precomp(M);
  VF_ASSERT(p && init_reim4_fftvec_addmul_precomp(&q, M) == &q, "both succeed");
  SAME_FN(p, q);
#elif KIND == 8
  CPLX_FFTVEC_MUL_PRECOMP q, *p = new_cplx_fftvec_mul_precomp(M);
  VF_ASSERT(p && init_cplx_fftvec_mul_precomp(&q, M) == &q, "both succeed");
  SAME_FN(p, q);
#elif KIND == 10
  CPLX_FROM_ZNX32_PRECOMP q, *p = new_cplx_from_znx32_precomp(M);
  VF_ASSERT(p && init_cplx_from_znx32_precomp(&q, M) == &q, "both succeed");
  SAME_FN(p, q);
#elif KIND == 11
  CPLX_FROM_TNX32_PRECOMP q, *p = new_cplx_from_tnx32_precomp(M);
  VF_ASSERT(p && init_cplx_from_tnx32_precomp(&q, M) == &q, "both succeed");
  SAME_FN(p, q);
#else
  CPLX_FFTVEC_ADDMUL_PRECOMP q, *p = new_cplx_fftvec_addmul_precomp(M);
  VF_ASSERT(p && init_cplx_fftvec_addmul_precomp(&q, M) == &q, "both succeed");
  SAME_FN(p, q);
#endif
  free(p);
  VF_REACH();
}
