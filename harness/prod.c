/* C01 / C02 / C16 (FFT64 product paths) for the algebraic analysis: the real pipeline code with the two conversion kernels cut
 * out by contract stubs (justified bit-precisely by C14):
 *   from_znx64 stub: returns the operand coefficients as the symbolic reals VF_A / VF_B (integers in the analysis' box);
 *   to_znx64   stub: records its pre-rounding argument vector (VF_OUT) instead of rounding.
 *   -DPATH= 0 znx_small_single_product
 *           1 svp_prepare + svp_apply_dft + vec_znx_idft        (TMPA: vec_znx_idft_tmp_a)
 *           2 vmp_prepare_contiguous + vmp_apply_dft + vec_znx_idft_tmp_a
 *           3 vmp_prepare_contiguous + vec_znx_dft + vmp_apply_dft_to_dft + vec_znx_idft_tmp_a
 *   -DNN -DMM -DAVX -DRSZ -DASZ -DASL -DNROWS -DNCOLS
 * VF_A[limb*NN + i]: coefficients of the vector operand (limb-major, stride-free numbering); VF_B: scalar / matrix operand
 * (row-major [row][col][NN]); VF_OUT[limb*NN + k]: m * (result coefficient k of output limb), before rounding;
 * VF_RAW: the final integer buffer as left by the pipeline (rows that must be zero are checked bit-precisely). */
#include "apimod.h"
#include <math.h>

#ifndef PATH
#define PATH 0
#endif
#ifndef RSZ
#define RSZ 1
#endif
#ifndef ASZ
#define ASZ 1
#endif
#ifndef ASL
#define ASL NN
#endif
#ifndef NROWS
#define NROWS 1
#endif
#ifndef NCOLS
#define NCOLS 1
#endif

#if PATH <= 1
#define NA_LIMBS ((PATH == 0) ? 1 : ASZ)
#define NB_WORDS NN
#define NOUT_LIMBS ((PATH == 0) ? 1 : RSZ)
#else
#define NA_LIMBS ASZ
#define NB_WORDS (NROWS * NCOLS * NN)
#define NOUT_LIMBS RSZ
#endif
#define D1(n) ((n) ? (n) : 1)

double VF_A[D1(NA_LIMBS * NN)];
double VF_B[D1(NB_WORDS)];
double VF_OUT[D1(NOUT_LIMBS * NN)];
double VF_DIV; /* divisor seen by the to_znx64 stub */

static const int64_t* g_a_base;
static uint64_t g_a_sl;
static const int64_t* g_b_base;
static int64_t* g_res_base;

/* under the solver the integer operand buffers carry concrete tags (their VALUES are the symbols VF_A / VF_B handed out by the stub): a stage that
 * overwrites an operand before the conversion reads it - e.g. by using the output, which may alias an operand, as scratch - breaks a tag */
#define VF_TAG_A(i) ((int64_t)(0x1111000000000000LL + (int64_t)(i)))
#define VF_TAG_B(i) ((int64_t)(0x2222000000000000LL + (int64_t)(i)))
#ifndef PALIAS
#define PALIAS 0 /* PATH 0 only: 1 res == a, 2 res == b (same buffer) */
#endif
#ifdef __CPROVER__
/* contract stub for reim_from_znx64 (C14: exact for |x| < 2^50): which operand and which limb is identified by the pointer */
static void stub_from_znx64(const REIM_FROM_ZNX64_PRECOMP* p, void* r, const int64_t* x) {
  double* out = (double*)r;
  const uint64_t nn = (uint64_t)p->m << 1;
  if (__CPROVER_POINTER_OBJECT(x) == __CPROVER_POINTER_OBJECT(g_b_base)) { /* x points into the b / matrix operand */
    uint64_t off = (uint64_t)(__CPROVER_POINTER_OFFSET(x) - __CPROVER_POINTER_OFFSET(g_b_base)) / 8;
    for (uint64_t i = 0; i < nn; ++i) {
      VF_ASSERT(x[i] == VF_TAG_B(off + i), "operand b still holds its original contents when the conversion reads it (not overwritten by an earlier stage)");
      out[i] = VF_B[off + i];
    }
  } else {
    VF_ASSERT(__CPROVER_POINTER_OBJECT(x) == __CPROVER_POINTER_OBJECT(g_a_base), "from_znx64 reads one of the two operands");
    uint64_t off = (uint64_t)(__CPROVER_POINTER_OFFSET(x) - __CPROVER_POINTER_OFFSET(g_a_base)) / 8;
    uint64_t limb = off / g_a_sl;
    VF_ASSERT(off % g_a_sl == 0 && limb < D1(NA_LIMBS), "from_znx64 called on a limb of the vector operand");
    for (uint64_t i = 0; i < nn; ++i) {
      VF_ASSERT(x[i] == VF_TAG_A(off + i), "operand a still holds its original contents when the conversion reads it (not overwritten by an earlier stage)");
      out[i] = VF_A[limb * NN + i];
    }
  }
}
/* contract stub for reim_to_znx64 (C14: result within 1/2 of x/divisor): records x */
static void stub_to_znx64(const REIM_TO_ZNX64_PRECOMP* p, int64_t* r, const void* x) {
  const double* v = (const double*)x;
  const uint64_t nn = (uint64_t)p->m << 1;
  VF_ASSERT(__CPROVER_POINTER_OBJECT(r) == __CPROVER_POINTER_OBJECT(g_res_base), "to_znx64 writes into the result");
  uint64_t off = (uint64_t)(__CPROVER_POINTER_OFFSET(r) - __CPROVER_POINTER_OFFSET(g_res_base)) / 8;
  VF_ASSERT(off % NN == 0 && off / NN < D1(NOUT_LIMBS), "to_znx64 writes a limb of the result");
  VF_DIV = p->divisor;
  for (uint64_t i = 0; i < nn; ++i) {
    VF_OUT[off + i] = v[i];
    r[i] = 0x5a5a5a5a; /* marker: a converted limb */
  }
}
#endif

/* buffers that carry doubles are allocated as double arrays (a uint64-typed object written through double* makes the symbolic
 * executor route every value through bit reinterpretation); contents are left uninitialised = nondeterministic */
static void* dbuf(uint64_t nbytes) {
  double* p = (double*)malloc((nbytes / 8) * sizeof(double));
#ifdef __CPROVER__
  __CPROVER_assume(p != 0);
#else
  /* native replay: "prior contents" are a non-zero pattern (fresh heap pages are zero, which hides output words that are never written) */
  for (uint64_t i = 0; i < nbytes / 8; ++i) p[i] = 1.5;
#endif
  return p;
}
/* scratch buffer starting TOFFS 64-bit words (8*TOFFS bytes) past a 64-byte boundary (C15: results do not depend on the alignment of the buffers) */
#ifndef TOFFS
#define TOFFS 0
#endif
static void* tbuf(uint64_t nbytes) {
#if TOFFS == 0
  return dbuf(nbytes);
#else
#ifdef __CPROVER__
  double* p = (double*)malloc((nbytes / 8 + TOFFS) * sizeof(double)); /* offset 0 of an object plays the 64-byte boundary */
  __CPROVER_assume(p != 0);
#else
  double* p = (double*)aligned_alloc(64, ((nbytes + 8 * TOFFS + 63) / 64) * 64);
  for (uint64_t i = 0; i < nbytes / 8 + TOFFS; ++i) p[i] = 1.5;
#endif
  return p + TOFFS;
#endif
}

void h_prod(void) {
  vf_fullmod fm;
  vf_fullmod_init_fft64(&fm, AVX);
#ifdef __CPROVER__
  fm.mod.mod.fft64.p_conv->function = stub_from_znx64;
  fm.mod.mod.fft64.p_reim_to_znx->function = stub_to_znx64;
#endif
  const MODULE* mod = &fm.mod;
  for (unsigned i = 0; i < NA_LIMBS * NN; ++i) VF_A[i] = vf_f64();
  for (unsigned i = 0; i < NB_WORDS; ++i) VF_B[i] = vf_f64();
  /* under the solver the integer operand buffers only carry addresses (their contents are replaced by VF_A / VF_B in the stub);
   * natively (replay) the real conversions run on the integer values of VF_A / VF_B */
  const uint64_t aw = vf_extent(NA_LIMBS, (PATH == 0) ? NN : ASL, NN);
  int64_t* a = (int64_t*)vf_alloc_words_raw(aw);
  int64_t* b = (int64_t*)vf_alloc_words_raw(NB_WORDS);
  g_a_base = a;
  g_a_sl = (PATH == 0) ? NN : ASL;
  g_b_base = b;
#ifdef __CPROVER__
  for (uint64_t i = 0; i < aw; ++i) a[i] = VF_TAG_A(i);
  for (uint64_t i = 0; i < NB_WORDS; ++i) b[i] = VF_TAG_B(i);
#endif
#ifndef __CPROVER__
  for (unsigned l = 0; l < NA_LIMBS; ++l)
    for (unsigned i = 0; i < NN; ++i) a[l * g_a_sl + i] = (int64_t)VF_A[l * NN + i];
  for (unsigned i = 0; i < NB_WORDS; ++i) b[i] = (int64_t)VF_B[i];
#endif
#if PATH == 0 && PALIAS == 1
  int64_t* res = a; /* in place on the first operand */
#elif PATH == 0 && PALIAS == 2
  int64_t* res = b; /* in place on the second operand */
#else
  int64_t* res = (int64_t*)vf_alloc_words_raw(D1(NOUT_LIMBS * NN)); /* big result (int64 limbs) */
  for (unsigned i = 0; i < NOUT_LIMBS * NN; ++i) res[i] = 0x0123456789abcdefLL; /* dirty */
#endif
  g_res_base = res;

#if PATH == 0
  uint8_t* tmp = (uint8_t*)tbuf(znx_small_single_product_tmp_bytes(mod));
  znx_small_single_product(mod, res, a, b, tmp);
#elif PATH == 1
  uint64_t* pp = (uint64_t*)dbuf(bytes_of_svp_ppol(mod));
  uint64_t* dft = (uint64_t*)dbuf(bytes_of_vec_znx_dft(mod, RSZ));
  svp_prepare(mod, (SVP_PPOL*)pp, b);
  svp_apply_dft(mod, (VEC_ZNX_DFT*)dft, RSZ, (SVP_PPOL*)pp, a, ASZ, ASL);
#ifdef TMPA
  vec_znx_idft_tmp_a(mod, (VEC_ZNX_BIG*)res, RSZ, (VEC_ZNX_DFT*)dft, RSZ);
#elif defined(IDFT_INPLACE)
  /* the inverse DFT writing over its own input (supported for FFT64: a DFT limb and a big limb have the same size): the result is read from the DFT buffer */
  uint8_t* tmp = (uint8_t*)tbuf(vec_znx_idft_tmp_bytes(mod));
  res = (int64_t*)dft;
  g_res_base = res;
  vec_znx_idft(mod, (VEC_ZNX_BIG*)dft, RSZ, (VEC_ZNX_DFT*)dft, RSZ, tmp);
#else
  uint8_t* tmp = (uint8_t*)tbuf(vec_znx_idft_tmp_bytes(mod));
  vec_znx_idft(mod, (VEC_ZNX_BIG*)res, RSZ, (VEC_ZNX_DFT*)dft, RSZ, tmp);
#endif
#else
  uint64_t* pm = (uint64_t*)dbuf(bytes_of_vmp_pmat(mod, NROWS, NCOLS));
  uint8_t* tmp0 = (uint8_t*)tbuf(vmp_prepare_contiguous_tmp_bytes(mod, NROWS, NCOLS));
  vmp_prepare_contiguous(mod, (VMP_PMAT*)pm, b, NROWS, NCOLS, tmp0);
  uint64_t* dft = (uint64_t*)dbuf(bytes_of_vec_znx_dft(mod, RSZ));
#if PATH == 2
  uint8_t* tmp = (uint8_t*)tbuf(vmp_apply_dft_tmp_bytes(mod, RSZ, ASZ, NROWS, NCOLS));
  vmp_apply_dft(mod, (VEC_ZNX_DFT*)dft, RSZ, a, ASZ, ASL, (VMP_PMAT*)pm, NROWS, NCOLS, tmp);
#else
  uint64_t* adft = (uint64_t*)dbuf(bytes_of_vec_znx_dft(mod, ASZ));
  vec_znx_dft(mod, (VEC_ZNX_DFT*)adft, ASZ, a, ASZ, ASL);
  uint8_t* tmp = (uint8_t*)tbuf(vmp_apply_dft_to_dft_tmp_bytes(mod, RSZ, ASZ, NROWS, NCOLS));
  vmp_apply_dft_to_dft(mod, (VEC_ZNX_DFT*)dft, RSZ, (VEC_ZNX_DFT*)adft, ASZ, (VMP_PMAT*)pm, NROWS, NCOLS, tmp);
#endif
  vec_znx_idft_tmp_a(mod, (VEC_ZNX_BIG*)res, RSZ, (VEC_ZNX_DFT*)dft, RSZ);
#endif
#ifndef __CPROVER__
  /* native oracle: exact negacyclic product(s) in 128-bit integers, property bound E + 1/2 per coefficient */
  {
    unsigned lg = 0;
    while ((1u << lg) < NN) ++lg;
    for (unsigned l = 0; l < NOUT_LIMBS; ++l) {
      __int128 ex[NN];
      long double E = 0;
      for (unsigned k = 0; k < NN; ++k) ex[k] = 0;
#if PATH <= 1
      const unsigned nterms = (PATH == 0 || l < ASZ) ? 1 : 0;
#else
      const unsigned nterms = (l < NCOLS) ? (NROWS < ASZ ? NROWS : ASZ) : 0;
#endif
      for (unsigned t = 0; t < nterms; ++t) {
#if PATH <= 1
        const double* av = VF_A + l * NN;
        const double* bv = VF_B;
#else
        const double* av = VF_A + t * NN;
        const double* bv = VF_B + (t * NCOLS + l) * NN;
#endif
        long double a1 = 0, a2 = 0, b1 = 0, b2 = 0;
        for (unsigned i = 0; i < NN; ++i) {
          a1 += fabsl((long double)av[i]);
          a2 += (long double)av[i] * av[i];
          b1 += fabsl((long double)bv[i]);
          b2 += (long double)bv[i] * bv[i];
          for (unsigned j = 0; j < NN; ++j) {
            __int128 p = (__int128)(int64_t)av[i] * (int64_t)bv[j];
            if (i + j < NN)
              ex[i + j] += p;
            else
              ex[i + j - NN] -= p;
          }
        }
        E += 8.0L * lg * 1.1102230246251565404e-16L * (a1 * sqrtl(b2) + sqrtl(a2) * b1);
      }
      for (unsigned k = 0; k < NN; ++k) {
        long double d = (long double)((__int128)res[l * NN + k] - ex[k]);
        if (fabsl(d) > E + 0.5L) printf("limb %u coeff %u: got %lld, exact %lld, allowed error %Lg\n", l, k, (long long)res[l * NN + k], (long long)ex[k], E + 0.5L);
        VF_ASSERT(fabsl(d) <= E + 0.5L, "FFT64 product within E + 1/2 of the exact negacyclic product");
      }
    }
  }
#endif
  VF_REACH();
}
