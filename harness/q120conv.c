/* C10 / C03: q120 layout conversions.  One coefficient (nn=1) per call is enough: the loops treat coefficients
 * independently (the memory-contract harness runs nn>1).
 *   -DCONV= 0 b_from_znx64   1 c_from_znx64   2 c_from_b   3 add_bbb   4 add_ccc   5 b_to_znx128   6 znx64->b->znx128 round trip
 *   -DNEG=0|1   sign class of the int64 input (CONV 0,1,6): x = v (v in [0,2^63)) or x = v - 2^63
 * Inputs VF_X[] (64-bit words), outputs VF_OUT[] (64-bit words; 128-bit results as low/high word). */
#include "common.h"
#include "vf_tables.h"
#include "q120/q120_arithmetic.h"

#ifndef CONV
#define CONV 0
#endif
#ifndef NEG
#define NEG 0
#endif
#define NIN ((CONV == 3 || CONV == 4) ? 8 : ((CONV == 2 || CONV == 5) ? 4 : 1))
#define NOUT ((CONV == 0 || CONV == 3) ? 4 : ((CONV == 5 || CONV == 6) ? 2 : 8))

uint64_t VF_X[NIN];
uint64_t VF_OUT[NOUT];
__int128_t VF_R128[1]; /* 128-bit result of the centered lift, exported as one signed term */
static const uint64_t QS[4] = {VFT_Q1, VFT_Q2, VFT_Q3, VFT_Q4};

void h_conv(void) {
  for (unsigned i = 0; i < NIN; ++i) VF_X[i] = vf_u64();
#if CONV == 0 || CONV == 1 || CONV == 6
  VF_ASSUME(VF_X[0] < (UINT64_C(1) << 63));
  int64_t* x = (int64_t*)vf_alloc_words_raw(1);
  x[0] = (int64_t)(NEG ? (VF_X[0] + (UINT64_C(1) << 63)) : VF_X[0]); /* NEG: value v - 2^63 */
  const int64_t x0 = x[0];
#endif
#if CONV == 0
  uint64_t* r = vf_alloc_words(4);
  q120_b_from_znx64_simple(1, (q120b*)r, x);
  for (unsigned k = 0; k < 4; ++k) VF_OUT[k] = r[k];
#elif CONV == 1
  uint32_t* r = (uint32_t*)malloc(8 * sizeof(uint32_t));
  q120_c_from_znx64_simple(1, (q120c*)r, x);
  for (unsigned k = 0; k < 8; ++k) VF_OUT[k] = r[k];
#elif CONV == 2
  uint64_t* b = vf_alloc_words_raw(4);
  for (unsigned k = 0; k < 4; ++k) b[k] = VF_X[k];
  uint32_t* r = (uint32_t*)malloc(8 * sizeof(uint32_t));
  q120_c_from_b_simple(1, (q120c*)r, (q120b*)b);
  for (unsigned k = 0; k < 8; ++k) VF_OUT[k] = r[k];
#elif CONV == 3
  uint64_t* a = vf_alloc_words_raw(4);
  uint64_t* b = vf_alloc_words_raw(4);
  for (unsigned k = 0; k < 4; ++k) {
    a[k] = VF_X[k];
    b[k] = VF_X[4 + k];
  }
  uint64_t* r = vf_alloc_words(4);
  q120_add_bbb_simple(1, (q120b*)r, (q120b*)a, (q120b*)b);
  for (unsigned k = 0; k < 4; ++k) VF_OUT[k] = r[k];
#elif CONV == 4
  uint32_t* a = (uint32_t*)malloc(8 * sizeof(uint32_t));
  uint32_t* b = (uint32_t*)malloc(8 * sizeof(uint32_t));
  for (unsigned k = 0; k < 4; ++k) { /* inputs: first words of each c lane; second words are the congruent companions */
    VF_ASSUME(VF_X[k] <= 0xffffffffULL && VF_X[4 + k] <= 0xffffffffULL);
    a[2 * k] = (uint32_t)VF_X[k];
    b[2 * k] = (uint32_t)VF_X[4 + k];
    a[2 * k + 1] = (uint32_t)((a[2 * k] * (UINT64_C(1) << 32)) % QS[k]);
    b[2 * k + 1] = (uint32_t)((b[2 * k] * (UINT64_C(1) << 32)) % QS[k]);
  }
  uint32_t* r = (uint32_t*)malloc(8 * sizeof(uint32_t));
  q120_add_ccc_simple(1, (q120c*)r, (q120c*)a, (q120c*)b);
  for (unsigned k = 0; k < 8; ++k) VF_OUT[k] = r[k];
#elif CONV == 5
  uint64_t* b = vf_alloc_words_raw(4);
  for (unsigned k = 0; k < 4; ++k) b[k] = VF_X[k];
  __int128_t res[1];
  q120_b_to_znx128_simple(1, res, (q120b*)b);
  VF_R128[0] = res[0];
#else
  uint64_t* b = vf_alloc_words(4);
  q120_b_from_znx64_simple(1, (q120b*)b, x);
  __int128_t res[1];
  q120_b_to_znx128_simple(1, res, (q120b*)b);
  VF_R128[0] = res[0];
#endif

  /* C18: the source operands of every conversion / addition are bit-for-bit what they were (also a lazily reduced representative is a modification) */
#if CONV == 0 || CONV == 1 || CONV == 6
  VF_ASSERT(x[0] == x0, "q120 conversion leaves its int64 source untouched");
#elif CONV == 2 || CONV == 5
  for (unsigned k = 0; k < 4; ++k) VF_ASSERT(b[k] == VF_X[k], "q120 conversion leaves its q120b source untouched");
#elif CONV == 3
  for (unsigned k = 0; k < 4; ++k) VF_ASSERT(a[k] == VF_X[k] && b[k] == VF_X[4 + k], "q120_add_bbb leaves both q120b sources untouched");
#elif CONV == 4
  for (unsigned k = 0; k < 4; ++k) VF_ASSERT(a[2 * k] == (uint32_t)VF_X[k] && b[2 * k] == (uint32_t)VF_X[4 + k], "q120_add_ccc leaves both q120c sources untouched");
#endif

#ifndef __CPROVER__
  /* native oracle (exact 128-bit arithmetic) */
#if CONV == 0
  for (unsigned k = 0; k < 4; ++k) {
    __int128 d = (__int128)r[k] - (__int128)x0;
    VF_ASSERT(d % (__int128)QS[k] == 0, "b_from_znx64: lane congruent to x modulo the prime");
  }
#elif CONV == 1
  for (unsigned k = 0; k < 4; ++k) {
    __int128 d = (__int128)r[2 * k] - (__int128)x0;
    VF_ASSERT(d % (__int128)QS[k] == 0 && r[2 * k] < QS[k], "c_from_znx64: first word == x mod q");
    VF_ASSERT(r[2 * k + 1] == (uint32_t)(((unsigned __int128)r[2 * k] << 32) % QS[k]), "c_from_znx64: second word == first * 2^32 mod q");
  }
#elif CONV == 2
  for (unsigned k = 0; k < 4; ++k) {
    VF_ASSERT(r[2 * k] == b[k] % QS[k], "c_from_b: first word");
    VF_ASSERT(r[2 * k + 1] == (uint32_t)(((unsigned __int128)r[2 * k] << 32) % QS[k]), "c_from_b: second word");
  }
#elif CONV == 3
  for (unsigned k = 0; k < 4; ++k) {
    unsigned __int128 s = (unsigned __int128)a[k] + b[k];
    VF_ASSERT((unsigned __int128)r[k] % QS[k] == s % QS[k], "add_bbb: congruent to the sum");
  }
#elif CONV == 4
  for (unsigned k = 0; k < 4; ++k) {
    VF_ASSERT(r[2 * k] % QS[k] == ((uint64_t)a[2 * k] + b[2 * k]) % QS[k], "add_ccc: first word congruent to the sum");
    VF_ASSERT(r[2 * k + 1] % QS[k] == (uint32_t)((((unsigned __int128)r[2 * k]) << 32) % QS[k]), "add_ccc: second word keeps the c contract");
  }
#elif CONV == 5
  {
    __int128 Q = (__int128)QS[0] * QS[1] * QS[2] * QS[3];
    for (unsigned k = 0; k < 4; ++k) {
      __int128 d = res[0] - (__int128)(b[k] % QS[k]);
      VF_ASSERT(d % (__int128)QS[k] == 0, "b_to_znx128: result congruent to lane k modulo q_k");
    }
    VF_ASSERT(2 * res[0] > -Q && 2 * res[0] <= Q, "b_to_znx128: centered representative in (-Q/2, Q/2]");
  }
#else
  VF_ASSERT(res[0] == (__int128)x0, "int64 -> b -> int128 is the identity");
#endif
#endif
  VF_REACH();
}
