/* C07: accelerated element kernels against their reference kernels on the same symbolic data, bit for bit.
 *   -DPAIR= 0 znx_add  1 znx_sub  2 znx_negate     -DNN=<1,2,4,8,..>  -DOFFS=<word offset of every buffer inside its allocation>
 *   h_rnx_div (FP, exported for the UF comparison): rnx_divide_by_m_ref vs _avx, -DNN -DMLOG (m = 2^MLOG) */
#include "common.h"
#include "coeffs/coeffs_arithmetic.h"

#ifndef PAIR
#define PAIR 0
#endif
#ifndef NN
#define NN 4
#endif
#ifndef OFFS
#define OFFS 0
#endif
#ifndef MLOG
#define MLOG 3
#endif

void h_pair(void) {
  int64_t* a = (int64_t*)(vf_alloc_words(NN + OFFS) + OFFS);
  int64_t* b = (int64_t*)(vf_alloc_words(NN + OFFS) + OFFS);
  int64_t* r1 = (int64_t*)(vf_alloc_words(NN + OFFS) + OFFS);
  int64_t* r2 = (int64_t*)(vf_alloc_words(NN + OFFS) + OFFS);
#if PAIR == 0
  znx_add_i64_ref(NN, r1, a, b);
  znx_add_i64_avx(NN, r2, a, b);
#elif PAIR == 1
  znx_sub_i64_ref(NN, r1, a, b);
  znx_sub_i64_avx(NN, r2, a, b);
#else
  znx_negate_i64_ref(NN, r1, a);
  znx_negate_i64_avx(NN, r2, a);
#endif
  for (unsigned i = 0; i < NN; ++i) VF_ASSERT(r1[i] == r2[i], "accelerated kernel returns the same 64-bit values as the reference kernel");
  VF_REACH();
}

uint64_t VF_OUT[NN], VF_OUT2[NN];
void h_rnx_div(void) {
  double* a = (double*)malloc(NN * sizeof(double));
  double* r1 = (double*)malloc(NN * sizeof(double));
  double* r2 = (double*)malloc(NN * sizeof(double));
#ifdef __CPROVER__
  __CPROVER_assume(a != 0 && r1 != 0 && r2 != 0);
#endif
  for (unsigned i = 0; i < NN; ++i) a[i] = vf_f64();
  union {
    double d;
    uint64_t u;
  } m;
  m.u = (uint64_t)(1023 + MLOG) << 52;
  rnx_divide_by_m_ref(NN, m.d, r1, a);
  rnx_divide_by_m_avx(NN, m.d, r2, a);
  for (unsigned i = 0; i < NN; ++i) {
    memcpy(&VF_OUT[i], &r1[i], 8);
    memcpy(&VF_OUT2[i], &r2[i], 8);
  }
#ifndef __CPROVER__
  for (unsigned i = 0; i < NN; ++i) VF_ASSERT(VF_OUT[i] == VF_OUT2[i] || (r1[i] != r1[i] && r2[i] != r2[i]), "rnx_divide_by_m: avx == ref bit for bit");
#endif
  VF_REACH();
}
