/* C15 (history) / C12 (warm-up protocol): the *_simple convenience functions cache tables keyed by dimension (and, for some,
 * divisor / bound).  Three-call history  f(M1,P1); f(M2,P2); f(M1,P1)  against a freshly initialised table for (M1,P1):
 * the third call must return the same bits (outputs compared as uninterpreted terms, see vf.alg.uf).
 *   -DFUN= 0 reim_fftvec_mul_simple 1 reim_fftvec_addmul_simple 2 reim4_fftvec_mul_simple 3 reim4_fftvec_addmul_simple
 *          4 reim4_from_cplx_simple 5 reim4_to_cplx_simple 6 reim_from_znx64_simple 7 reim_to_znx64_simple
 *          8 cplx_from_znx32_simple 9 cplx_from_tnx32_simple 10 cplx_to_tnx32_simple 11 cplx_fftvec_mul_simple 12 cplx_fftvec_addmul_simple
 *          13 reim_fft_simple 14 reim_ifft_simple 15 cplx_fft_simple 16 cplx_ifft_simple (in place; cos/sin uninterpreted)
 *   -DM1 -DM2 (dimensions)  -DD1 -DD2 (log2 divisors)  -DB1 -DB2 (log2bound / log2overhead)   -DAVX */
#include "common.h"
#include "reim/reim_fft_internal.h"
#include "reim/reim_fft_private.h"
#include "reim4/reim4_fftvec_internal.h"
#include "reim4/reim4_fftvec_private.h"
#include "cplx/cplx_fft_internal.h"
#include "cplx/cplx_fft_private.h"

#ifndef FUN
#define FUN 0
#endif
#ifndef M1
#define M1 4
#endif
#ifndef M2
#define M2 8
#endif
#ifndef D1
#define D1 0
#endif
#ifndef D2
#define D2 3
#endif
#ifndef B1
#define B1 50
#endif
#ifndef B2
#define B2 63
#endif
#ifndef AVX
#define AVX 0
#endif
#define MX (M1 > M2 ? M1 : M2)

void* init_reim_from_znx64_precomp(REIM_FROM_ZNX64_PRECOMP* const res, uint32_t m, uint32_t log2bound);
void* init_reim_to_znx64_precomp(REIM_TO_ZNX64_PRECOMP* const res, uint32_t m, double divisor, uint32_t log2bound);
void* init_reim4_from_cplx_precomp(REIM4_FROM_CPLX_PRECOMP* res, uint32_t m);
void* init_reim4_to_cplx_precomp(REIM4_TO_CPLX_PRECOMP* res, uint32_t m);
void* init_cplx_from_znx32_precomp(CPLX_FROM_ZNX32_PRECOMP* res, uint32_t m);
void* init_cplx_from_tnx32_precomp(CPLX_FROM_TNX32_PRECOMP* res, uint32_t m);
void* init_cplx_to_tnx32_precomp(CPLX_TO_TNX32_PRECOMP* res, uint32_t m, double divisor, uint32_t log2overhead);
EXPORT void* init_cplx_fftvec_addmul_precomp(CPLX_FFTVEC_ADDMUL_PRECOMP* r, uint32_t m);
EXPORT void* init_cplx_fftvec_mul_precomp(CPLX_FFTVEC_MUL_PRECOMP* r, uint32_t m);

#if defined(__CPROVER__) && FUN >= 13
/* the table builders of the transforms call libm: cos / sin are kept uninterpreted (same argument, same value - which is all that "the cached table
 * equals a freshly built one" needs) */
double __CPROVER_uninterpreted_cos(double x);
double __CPROVER_uninterpreted_sin(double x);
double cos(double x) { return __CPROVER_uninterpreted_cos(x); }
double sin(double x) { return __CPROVER_uninterpreted_sin(x); }
#endif
uint64_t VF_OUT[2 * MX], VF_OUT2[2 * MX];
uint64_t VF_OUT3[2 * MX], VF_OUT4[2 * MX]; /* the same-dimension / other-parameters call and its fresh-table twin */
static double pow2(int e) {
  union {
    double d;
    uint64_t u;
  } c;
  c.u = (uint64_t)(1023 + e) << 52;
  return c.d;
}

/* one call of the function under test through its _simple entry */
static void call_simple(unsigned m, int dlog, unsigned bnd, uint64_t* r, const uint64_t* a, const uint64_t* b) {
  (void)dlog;
  (void)bnd;
  (void)b;
#if FUN == 0
  reim_fftvec_mul_simple(m, r, a, b);
#elif FUN == 1
  reim_fftvec_addmul_simple(m, r, a, b);
#elif FUN == 2
  reim4_fftvec_mul_simple(m, (double*)r, (const double*)a, (const double*)b);
#elif FUN == 3
  reim4_fftvec_addmul_simple(m, (double*)r, (const double*)a, (const double*)b);
#elif FUN == 4
  reim4_from_cplx_simple(m, (double*)r, a);
#elif FUN == 5
  reim4_to_cplx_simple(m, r, (const double*)a);
#elif FUN == 6
  reim_from_znx64_simple(m, bnd, r, (const int64_t*)a);
#elif FUN == 7
  reim_to_znx64_simple(m, pow2(dlog), bnd, (int64_t*)r, a);
#elif FUN == 8
  cplx_from_znx32_simple(m, r, (const int32_t*)a);
#elif FUN == 9
  cplx_from_tnx32_simple(m, r, (const int32_t*)a);
#elif FUN == 10
  cplx_to_tnx32_simple(m, pow2(dlog), bnd, (int32_t*)r, a);
#elif FUN == 11
  cplx_fftvec_mul_simple(m, r, a, b);
#elif FUN == 12
  cplx_fftvec_addmul_simple(m, r, a, b);
#else
  /* in-place transforms through the caching entry points: r := a, then transform r */
  for (unsigned i = 0; i < 2 * m; ++i) r[i] = a[i];
#if FUN == 13
  reim_fft_simple(m, r);
#elif FUN == 14
  reim_ifft_simple(m, r);
#elif FUN == 15
  cplx_fft_simple(m, r);
#else
  cplx_ifft_simple(m, r);
#endif
#endif
}

/* the same operation with a table initialised here, for (M1, D1, B1) */
static void call_fresh_p(uint64_t* r, const uint64_t* a, const uint64_t* b, int dlog, unsigned bnd) {
  (void)b;
  (void)dlog;
  (void)bnd;
#if FUN == 0
  REIM_FFTVEC_MUL_PRECOMP* p = new_reim_fftvec_mul_precomp(M1);
  reim_fftvec_mul(p, (double*)r, (const double*)a, (const double*)b);
#elif FUN == 1
  REIM_FFTVEC_ADDMUL_PRECOMP* p = new_reim_fftvec_addmul_precomp(M1);
  reim_fftvec_addmul(p, (double*)r, (const double*)a, (const double*)b);
#elif FUN == 2
  REIM4_FFTVEC_MUL_PRECOMP* p = new_reim4_fftvec_mul_precomp(M1);
  reim4_fftvec_mul(p, (double*)r, (const double*)a, (const double*)b);
#elif FUN == 3
  REIM4_FFTVEC_ADDMUL_PRECOMP* p = new_reim4_fftvec_addmul_precomp(M1);
  reim4_fftvec_addmul(p, (double*)r, (const double*)a, (const double*)b);
#elif FUN == 4
  REIM4_FROM_CPLX_PRECOMP p;
  init_reim4_from_cplx_precomp(&p, M1);
  reim4_from_cplx(&p, (double*)r, a);
#elif FUN == 5
  REIM4_TO_CPLX_PRECOMP p;
  init_reim4_to_cplx_precomp(&p, M1);
  reim4_to_cplx(&p, r, (const double*)a);
#elif FUN == 6
  REIM_FROM_ZNX64_PRECOMP p;
  init_reim_from_znx64_precomp(&p, M1, bnd);
  reim_from_znx64(&p, r, (const int64_t*)a);
#elif FUN == 7
  REIM_TO_ZNX64_PRECOMP p;
  init_reim_to_znx64_precomp(&p, M1, pow2(dlog), bnd);
  reim_to_znx64(&p, (int64_t*)r, a);
#elif FUN == 8
  CPLX_FROM_ZNX32_PRECOMP p;
  init_cplx_from_znx32_precomp(&p, M1);
  cplx_from_znx32(&p, r, (const int32_t*)a);
#elif FUN == 9
  CPLX_FROM_TNX32_PRECOMP p;
  init_cplx_from_tnx32_precomp(&p, M1);
  cplx_from_tnx32(&p, r, (const int32_t*)a);
#elif FUN == 10
  CPLX_TO_TNX32_PRECOMP p;
  init_cplx_to_tnx32_precomp(&p, M1, pow2(dlog), bnd);
  cplx_to_tnx32(&p, (int32_t*)r, a);
#elif FUN == 11
  CPLX_FFTVEC_MUL_PRECOMP p;
  init_cplx_fftvec_mul_precomp(&p, M1);
  cplx_fftvec_mul(&p, r, a, b);
#elif FUN == 12
  CPLX_FFTVEC_ADDMUL_PRECOMP p;
  init_cplx_fftvec_addmul_precomp(&p, M1);
  cplx_fftvec_addmul(&p, r, a, b);
#else
  for (unsigned i = 0; i < 2 * M1; ++i) r[i] = a[i];
#if FUN == 13
  REIM_FFT_PRECOMP* p = new_reim_fft_precomp(M1, 0);
  reim_fft(p, (double*)r);
#elif FUN == 14
  REIM_IFFT_PRECOMP* p = new_reim_ifft_precomp(M1, 0);
  reim_ifft(p, (double*)r);
#elif FUN == 15
  CPLX_FFT_PRECOMP* p = new_cplx_fft_precomp(M1, 0);
  cplx_fft(p, r);
#else
  CPLX_IFFT_PRECOMP* p = new_cplx_ifft_precomp(M1, 0);
  cplx_ifft(p, r);
#endif
#endif
}
static void call_fresh(uint64_t* r, const uint64_t* a, const uint64_t* b) { call_fresh_p(r, a, b, D1, B1); }

#ifdef __CPROVER__
int vf_marker; /* assigned once when the warm-up calls are over: the write-set analysis (vf.alg.uf) looks at what is assigned afterwards */
#define VF_MARK() (vf_marker = 1)
#else
#define VF_MARK() ((void)0)
#endif

#if defined(VF_TSAN_REPLAY) && !defined(__CPROVER__)
/* native confirmation of a shared write after warm-up: the same post-warm-up calls from two real threads under ThreadSanitizer */
#include <pthread.h>
typedef struct {
  const uint64_t *a1, *b1, *r0;
} vf_targ;
static void* vf_tsan_worker(void* arg) {
  const vf_targ* t = (const vf_targ*)arg;
  uint64_t* r = (uint64_t*)malloc(2 * M1 * sizeof(uint64_t));
  for (int it = 0; it < 200; ++it) {
    for (unsigned i = 0; i < 2 * M1; ++i) r[i] = t->r0[i];
#ifdef SAMEDIM_OTHER_PARAMS
    call_simple(M1, D2, B2, r, t->a1, t->b1);
#endif
    call_simple(M1, D1, B1, r, t->a1, t->b1);
  }
  free(r);
  return 0;
}
#endif

void h_simple(void) {
  vf_cpu_avx = AVX;
  /* operands for the calls and a common initial destination for the compared pair */
  uint64_t* a1 = vf_alloc_words(2 * M1);
  uint64_t* b1 = vf_alloc_words(2 * M1);
  uint64_t* a2 = vf_alloc_words(2 * M2);
  uint64_t* b2 = vf_alloc_words(2 * M2);
  uint64_t* r1 = vf_alloc_words(2 * M1);
  uint64_t* r2 = vf_alloc_words(2 * M2);
  uint64_t* r0 = vf_alloc_words(2 * M1); /* previous contents of the destination (matters for addmul) */
  call_simple(M1, D1, B1, r1, a1, b1); /* warm-up for dimension M1 */
  call_simple(M2, D2, B2, r2, a2, b2); /* warm-up for dimension M2 */
  VF_MARK();                           /* the documented warm-up protocol is complete: one call per dimension */
#if defined(VF_TSAN_REPLAY) && !defined(__CPROVER__)
  {
    vf_targ t = {a1, b1, r0};
    pthread_t th[2];
    for (int k = 0; k < 2; ++k) pthread_create(&th[k], 0, vf_tsan_worker, &t);
    for (int k = 0; k < 2; ++k) pthread_join(th[k], 0);
  }
#endif
  uint64_t* r3 = vf_alloc_words_raw(2 * M1); /* destinations of the later calls are allocated after the marker */
  uint64_t* rf = vf_alloc_words_raw(2 * M1);
  for (unsigned i = 0; i < 2 * M1; ++i) r3[i] = rf[i] = r0[i];
#ifdef SAMEDIM_OTHER_PARAMS
  {
    uint64_t* r4 = vf_alloc_words_raw(2 * M1);
    uint64_t* rf4 = vf_alloc_words_raw(2 * M1);
    for (unsigned i = 0; i < 2 * M1; ++i) r4[i] = rf4[i] = r0[i];
    call_simple(M1, D2, B2, r4, a1, b1); /* same dimension, other divisor / bound: the cache key must include them */
    call_fresh_p(rf4, a1, b1, D2, B2);   /* ... and this call, too, must return what a fresh table for ITS parameters returns */
    for (unsigned i = 0; i < 2 * M1; ++i) {
      VF_OUT3[i] = r4[i];
      VF_OUT4[i] = rf4[i];
    }
#ifndef __CPROVER__
    for (unsigned i = 0; i < 2 * M1; ++i) VF_ASSERT(r4[i] == rf4[i], "call with other parameters at a cached dimension gives the bits of a fresh table for those parameters");
#endif
  }
#endif
  call_simple(M1, D1, B1, r3, a1, b1); /* the call under test */
  call_fresh(rf, a1, b1);
  for (unsigned i = 0; i < 2 * M1; ++i) {
    VF_OUT[i] = r3[i];
    VF_OUT2[i] = rf[i];
  }
#ifndef __CPROVER__
  for (unsigned i = 0; i < 2 * M1; ++i) VF_ASSERT(r3[i] == rf[i], "cached table gives the same bits as a freshly built one");
#endif
  VF_REACH();
}

/* ---- C12: call-granularity interleavings of two threads over the thread-local caches (-DTHREADS).
 * Under CBMC the library is built with -DVF_TLS_EMUL: every `static __thread T x` is one slot per emulated thread, selected by vf_tid
 * (vf.core TLS rewrite; cbmc's sequential mode gives thread-local objects a single instance).  Natively the same history runs on two
 * real threads (real TLS), handed over call by call.
 *   history: (TA, PA) (TB, PB) (T0, P1), the last call compared with a freshly built table for P1 = (M1, D1, B1); P2 = (M1, D2, B2)
 *   -DTA= -DTB= thread of the first / second call   -DPA= -DPB= parameter set (1|2) of the first / second call */
#ifdef THREADS
#ifndef TA
#define TA 0
#endif
#ifndef TB
#define TB 1
#endif
#ifndef PA
#define PA 2
#endif
#ifndef PB
#define PB 1
#endif
typedef struct {
  int dlog;
  unsigned bnd;
  uint64_t* r;
  const uint64_t *a, *b;
} vf_call;
static void vf_do_call(vf_call* c) { call_simple(M1, c->dlog, c->bnd, c->r, c->a, c->b); }
#ifdef __CPROVER__
extern unsigned vf_tid;
static void vf_run_on(unsigned tid, vf_call* c) {
  vf_tid = tid;
  vf_do_call(c);
}
static void vf_threads_start(void) {}
static void vf_threads_stop(void) {}
#else
#include <pthread.h>
static pthread_mutex_t vf_mu = PTHREAD_MUTEX_INITIALIZER;
static pthread_cond_t vf_cv = PTHREAD_COND_INITIALIZER;
static vf_call* vf_slot[2];
static int vf_quit;
static pthread_t vf_th[2];
static void* vf_worker(void* arg) {
  unsigned me = (unsigned)(uintptr_t)arg;
  pthread_mutex_lock(&vf_mu);
  for (;;) {
    while (!vf_slot[me] && !vf_quit) pthread_cond_wait(&vf_cv, &vf_mu);
    if (vf_slot[me]) {
      vf_do_call(vf_slot[me]);
      vf_slot[me] = 0;
      pthread_cond_broadcast(&vf_cv);
    } else
      break;
  }
  pthread_mutex_unlock(&vf_mu);
  return 0;
}
static void vf_threads_start(void) {
  for (unsigned k = 0; k < 2; ++k) pthread_create(&vf_th[k], 0, vf_worker, (void*)(uintptr_t)k);
}
static void vf_threads_stop(void) {
  pthread_mutex_lock(&vf_mu);
  vf_quit = 1;
  pthread_cond_broadcast(&vf_cv);
  pthread_mutex_unlock(&vf_mu);
  for (unsigned k = 0; k < 2; ++k) pthread_join(vf_th[k], 0);
}
static void vf_run_on(unsigned tid, vf_call* c) {
  pthread_mutex_lock(&vf_mu);
  vf_slot[tid] = c;
  pthread_cond_broadcast(&vf_cv);
  while (vf_slot[tid]) pthread_cond_wait(&vf_cv, &vf_mu);
  pthread_mutex_unlock(&vf_mu);
}
#endif

void h_simple_threads(void) {
  vf_cpu_avx = AVX;
  uint64_t* a1 = vf_alloc_words(2 * M1);
  uint64_t* b1 = vf_alloc_words(2 * M1);
  uint64_t* aa = vf_alloc_words(2 * M1);
  uint64_t* ab = vf_alloc_words(2 * M1);
  uint64_t* r0 = vf_alloc_words(2 * M1);
  uint64_t* ra = vf_alloc_words_raw(2 * M1);
  uint64_t* rb = vf_alloc_words_raw(2 * M1);
  uint64_t* r3 = vf_alloc_words_raw(2 * M1);
  uint64_t* rf = vf_alloc_words_raw(2 * M1);
  for (unsigned i = 0; i < 2 * M1; ++i) ra[i] = rb[i] = r3[i] = rf[i] = r0[i];
  vf_call ca = {PA == 1 ? D1 : D2, PA == 1 ? B1 : B2, ra, aa, b1};
  vf_call cb = {PB == 1 ? D1 : D2, PB == 1 ? B1 : B2, rb, ab, b1};
  vf_call c3 = {D1, B1, r3, a1, b1};
  vf_threads_start();
  vf_run_on(TA, &ca);
  vf_run_on(TB, &cb);
  vf_run_on(0, &c3); /* the call under test, on thread 0 */
  vf_threads_stop();
  call_fresh(rf, a1, b1);
  for (unsigned i = 0; i < 2 * M1; ++i) {
    VF_OUT[i] = r3[i];
    VF_OUT2[i] = rf[i];
  }
#ifndef __CPROVER__
  for (unsigned i = 0; i < 2 * M1; ++i) VF_ASSERT(r3[i] == rf[i], "a call returns the bits it returns alone, whatever other threads called in between");
#endif
  VF_REACH();
}
#endif
