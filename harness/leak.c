/* C11 (last clause): every new_* / delete_* pair releases all memory it allocated (cbmc --memory-leak-check: at the end of the harness no
 * heap object allocated inside it is still live).
 *   -DKIND=0  FFT64 module: a heap MODULE filled by the REAL fill_module_precomp / fill_virtual_table (the two trig-table builders return heap
 *             objects made from the dumped tables, as new_reim_(i)fft_precomp returns one heap object), released by the real delete_module_info
 *   -DKIND=1  new_vec_znx_dft / new_vec_znx_big / new_svp_ppol / new_vmp_pmat and their delete_* on an FFT64 module
 *   -DNN -DMM -DAVX */
#include "apimod.h"
#ifndef KIND
#define KIND 0
#endif

#ifdef __CPROVER__
/* cbmc has no model of aligned_alloc (a body-less function returns an arbitrary pointer, possibly into a live object): the alignment plays no role here */
void* aligned_alloc(size_t alignment, size_t size) {
  (void)alignment;
  return malloc(size);
}
#endif

void h_leak(void) {
  vf_fullmod* fm = (vf_fullmod*)malloc(sizeof(vf_fullmod));
#ifdef __CPROVER__
  __CPROVER_assume(fm != 0);
#endif
  vf_fullmod_init_fft64(fm, AVX);
#if KIND == 1
  {
    const MODULE* mod = &fm->mod;
    VEC_ZNX_DFT* d = new_vec_znx_dft(mod, 3);
    VEC_ZNX_BIG* b = new_vec_znx_big(mod, 2);
    SVP_PPOL* s = new_svp_ppol(mod);
    VMP_PMAT* p = new_vmp_pmat(mod, 2, 3);
    VF_ASSERT(d && b && s && p, "allocation functions return objects");
    ((uint64_t*)d)[3 * NN - 1] = 1; /* the objects have the advertised sizes (bounds-checked writes to their last words) */
    ((uint64_t*)b)[2 * NN - 1] = 1;
    ((uint64_t*)s)[NN - 1] = 1;
    ((uint64_t*)p)[2 * 3 * NN - 1] = 1;
    delete_vmp_pmat(p);
    delete_svp_ppol(s);
    delete_vec_znx_big(b);
    delete_vec_znx_dft(d);
  }
#endif
  delete_module_info(&fm->mod); /* real code: frees every precomputed object and the MODULE itself */
  VF_REACH();
}
