/* C14: numeric layout conversions, bit-precise, every lane symbolic over its whole documented window.
 * The precomp objects are filled by the REAL init_* functions (selection logic included) unless a
 * kernel is called directly (-DDIRECT=<function>).
 *   -DM=<complex dim>  -DAVX=0|1   entry-specific: -DDIVLOG (divisor 2^DIVLOG), -DLOG2BOUND, -DL (log2overhead)
 */
#include "common.h"
#include <math.h>
#include "reim/reim_fft_internal.h"
#include "reim/reim_fft_private.h"
#include "cplx/cplx_fft_internal.h"
#include "cplx/cplx_fft_private.h"

#ifndef M
#define M 2
#endif
#ifndef AVX
#define AVX 0
#endif
#ifndef DIVLOG
#define DIVLOG 0
#endif
#ifndef LOG2BOUND
#define LOG2BOUND 63
#endif
#ifndef L
#define L 18
#endif
#define NW (2 * M)

void* init_reim_from_znx64_precomp(REIM_FROM_ZNX64_PRECOMP* const res, uint32_t m, uint32_t log2bound);
void* init_reim_to_znx64_precomp(REIM_TO_ZNX64_PRECOMP* const res, uint32_t m, double divisor, uint32_t log2bound);
void* init_reim_to_tnx_precomp(REIM_TO_TNX_PRECOMP* const res, uint32_t m, double divisor, uint32_t log2overhead);
void* init_cplx_from_znx32_precomp(CPLX_FROM_ZNX32_PRECOMP* res, uint32_t m);
void* init_cplx_from_tnx32_precomp(CPLX_FROM_TNX32_PRECOMP* res, uint32_t m);
void* init_cplx_to_tnx32_precomp(CPLX_TO_TNX32_PRECOMP* res, uint32_t m, double divisor, uint32_t log2overhead);
EXPORT void reim_to_tnx_basic_ref(const REIM_TO_TNX_PRECOMP* tables, double* r, const double* x);

static uint64_t dbits(double x) {
  union {
    double d;
    uint64_t u;
  } c;
  c.d = x;
  return c.u;
}
static double pow2(int e) { /* exact power of two as a double, -1000 < e < 1000 */
  union {
    double d;
    uint64_t u;
  } c;
  c.u = (uint64_t)(1023 + e) << 52;
  return c.d;
}
static double* alloc_d(uint64_t n) {
  double* p = (double*)malloc(n ? n * 8 : 1);
#ifdef __CPROVER__
  __CPROVER_assume(p != 0);
#endif
  return p;
}

/* ------------------------------------------------------------------ int64 -> double, exact below 2^50 */
void h_from_znx64(void) {
  vf_cpu_avx = AVX;
  REIM_FROM_ZNX64_PRECOMP p;
  int64_t* x = (int64_t*)vf_alloc_words_raw(NW);
  double* out = alloc_d(NW);
  for (unsigned i = 0; i < NW; ++i) {
    x[i] = vf_i64();
    VF_ASSUME(x[i] > -(INT64_C(1) << 50) && x[i] < (INT64_C(1) << 50));
    out[i] = vf_f64();
  }
#ifdef DIRECT
  p.m = M;
  p.function = DIRECT;
  DIRECT(&p, out, x);
#else
  VF_ASSERT(init_reim_from_znx64_precomp(&p, M, 50) == &p, "init succeeds");
  reim_from_znx64(&p, out, x);
#endif
  for (unsigned i = 0; i < NW; ++i) VF_ASSERT(dbits(out[i]) == dbits((double)x[i]), "int64 -> double is exact for |x| < 2^50");
  VF_REACH();
}

/* ------------------------------------------------------------------ double -> int64 with divisor, within 1/2 */
#ifndef DOMLOG
#define DOMLOG ((LOG2BOUND <= 52) ? LOG2BOUND : 52) /* the declared bound; beyond 2^52 every double is an integer and the harness' own error term would round */
#endif
void h_to_znx64(void) {
  vf_cpu_avx = AVX;
  REIM_TO_ZNX64_PRECOMP p;
  const double d = pow2(DIVLOG);
  double* x = alloc_d(NW);
  int64_t* out = (int64_t*)vf_alloc_words(NW);
  const double lim = pow2(DOMLOG + DIVLOG);
  for (unsigned i = 0; i < NW; ++i) {
    x[i] = vf_f64();
    VF_ASSUME(x[i] > -lim && x[i] < lim); /* excludes NaN; |x/d| < 2^DOMLOG */
  }
#ifdef DIRECT
  p.m = M;
  p.divisor = d;
  p.function = DIRECT;
  DIRECT(&p, out, x);
#else
  VF_ASSERT(init_reim_to_znx64_precomp(&p, M, d, LOG2BOUND) == &p, "init succeeds");
  reim_to_znx64(&p, out, x);
#endif
  for (unsigned i = 0; i < NW; ++i) {
    /* |out - x/d| <= 1/2  <=>  |out*d - x| <= d/2 : out*d is exact (|out| <= 2^52, d a power of two), the subtraction is
     * correctly rounded and d/2 is representable, so by monotonicity of rounding the double comparison decides the real one */
    VF_ASSERT(out[i] >= -(INT64_C(1) << 52) && out[i] <= (INT64_C(1) << 52), "result magnitude");
    double e = (double)out[i] * d - x[i];
    VF_ASSERT(e <= d / 2 && e >= -d / 2, "double -> int64: result within 1/2 of x/divisor");
  }
  VF_REACH();
}

/* kernel selection of init_reim_to_znx64_precomp for EVERY declared bound (symbolic log2bound): the fast kernel whose domain is |x/d| < 2^50
 * (decided by to_znx64/direct/bnd50) may only be selected for declared bounds <= 50 */
void reim_to_znx64_avx2_bnd50_fma(const REIM_TO_ZNX64_PRECOMP* precomp, int64_t* r, const void* x);
void h_to_znx64_select(void) {
  vf_cpu_avx = AVX;
  REIM_TO_ZNX64_PRECOMP p;
  uint32_t lb = (uint32_t)vf_u64();
  VF_ASSUME(lb <= 64);
  void* r = init_reim_to_znx64_precomp(&p, M, pow2(DIVLOG), lb);
  if (r) {
    VF_ASSERT(r == &p && p.m == M && p.divisor == pow2(DIVLOG), "init records dimension and divisor");
    VF_ASSERT(!(p.function == reim_to_znx64_avx2_bnd50_fma && lb > 50), "the kernel limited to |x/d| < 2^50 is selected only for declared bounds <= 50");
  }
  VF_REACH();
}

/* ------------------------------------------------------------------ double -> torus double */
void h_to_tnx(void) {
  vf_cpu_avx = AVX;
  REIM_TO_TNX_PRECOMP p;
  const double d = pow2(DIVLOG);
  double* x = alloc_d(NW);
  double* out = alloc_d(NW);
  const double lim = pow2(L + DIVLOG);
  for (unsigned i = 0; i < NW; ++i) {
#ifdef XEXP
    /* exponent class of x/d fixed by the driver (every class from the subnormals up to 2^L is its own query): with
     * constant exponent bits the alignment shifters of the IEEE adders fold, which is what makes the query decidable
     * (probe: the unsplit query does not finish in 300 s on minisat, cadical or kissat for L=18) */
    uint64_t w = vf_u64();
#if XEXP <= -1023
    w &= UINT64_C(0x800FFFFFFFFFFFFF); /* zero and subnormal x */
#else
    w = (w & UINT64_C(0x800FFFFFFFFFFFFF)) | ((uint64_t)(1023 + XEXP + DIVLOG) << 52);
#endif
    memcpy(&x[i], &w, 8);
#else
    x[i] = vf_f64();
#endif
    VF_ASSUME(x[i] >= -lim && x[i] <= lim); /* |x/d| <= 2^L */
#ifdef TINY
    VF_ASSUME(x[i] > -pow2(TINY + DIVLOG) && x[i] < pow2(TINY + DIVLOG)); /* the class of all |x/d| < 2^TINY, exponent symbolic */
#endif
    out[i] = vf_f64();
  }
#ifdef DIRECT
  VF_ASSERT(init_reim_to_tnx_precomp(&p, M, d, L) == &p, "init succeeds");
  DIRECT(&p, out, x);
#else
  VF_ASSERT(init_reim_to_tnx_precomp(&p, M, d, L) == &p, "init succeeds");
  reim_to_tnx(&p, out, x);
#endif
  const double tol = pow2(L - 50);
  for (unsigned i = 0; i < NW; ++i) {
    double t = x[i] * pow2(-DIVLOG); /* x/d, exact: d is a power of two (multiplication: no divider circuit for the solver) */
    double s = t - rint(t);  /* exact: the fractional part of a double is a double */
    double e0 = out[i] - s;  /* correctly rounded, tol representable: monotonicity argument as above */
    /* torus values are defined modulo 1: at the +-1/2 boundary either representative is the nearest-integer remainder */
    int ok = (e0 <= tol && e0 >= -tol) || (e0 - 1.0 <= tol && e0 - 1.0 >= -tol) || (e0 + 1.0 <= tol && e0 + 1.0 >= -tol);
    VF_ASSERT(ok, "double -> torus: x/d minus its nearest integer within 2^(log2overhead-50) (mod 1)");
    VF_ASSERT(out[i] <= 0.5 + tol && out[i] >= -0.5 - tol, "torus result in [-1/2,1/2]");
  }
  VF_REACH();
}

/* ------------------------------------------------------------------ int32 -> complex (integer or torus scaling) */
#ifndef TNX
#define TNX 0
#endif
void h_cplx_from32(void) {
  vf_cpu_avx = AVX;
  int32_t* x = (int32_t*)vf_alloc_words_raw(M); /* 2M int32 = M words */
  double* out = alloc_d(NW);
  for (unsigned i = 0; i < M; ++i) ((uint64_t*)x)[i] = vf_u64(); /* every int32 pattern */
  for (unsigned i = 0; i < NW; ++i) out[i] = vf_f64();
#if TNX
  CPLX_FROM_TNX32_PRECOMP p;
#ifdef DIRECT
  p.m = M;
  DIRECT(&p, out, x);
#else
  VF_ASSERT(init_cplx_from_tnx32_precomp(&p, M) == &p, "init succeeds");
  cplx_from_tnx32(&p, out, x);
#endif
#else
  CPLX_FROM_ZNX32_PRECOMP p;
#ifdef DIRECT
  p.m = M;
  DIRECT(&p, out, x);
#else
  VF_ASSERT(init_cplx_from_znx32_precomp(&p, M) == &p, "init succeeds");
  cplx_from_znx32(&p, out, x);
#endif
#endif
  const double sc = TNX ? pow2(-32) : 1.0;
  for (unsigned i = 0; i < M; ++i) {
    VF_ASSERT(dbits(out[2 * i]) == dbits((double)x[i] * sc), "int32 -> complex: real part exact");
    VF_ASSERT(dbits(out[2 * i + 1]) == dbits((double)x[M + i] * sc), "int32 -> complex: imaginary part exact");
  }
  VF_REACH();
}

/* ------------------------------------------------------------------ complex -> torus32 */
void h_cplx_to_tnx32(void) {
  vf_cpu_avx = AVX;
  CPLX_TO_TNX32_PRECOMP p;
  const double d = pow2(DIVLOG);
  double* x = alloc_d(NW);
  int32_t* out = (int32_t*)vf_alloc_words(M);
  const double lim = pow2(18 + DIVLOG);
  for (unsigned i = 0; i < NW; ++i) {
    x[i] = vf_f64();
    VF_ASSUME(x[i] > -lim && x[i] < lim);
  }
#ifdef DIRECT
  p.m = M;
  p.divisor = d;
  DIRECT(&p, out, x);
#else
  VF_ASSERT(init_cplx_to_tnx32_precomp(&p, M, d, 18) == &p, "init succeeds");
  cplx_to_tnx32(&p, out, x);
#endif
  for (unsigned i = 0; i < NW; ++i) {
    double y = x[i] * pow2(32 - DIVLOG); /* exact scaling, |y| < 2^50 */
    double fl = floor(y);
    int tie = (y - fl == 0.5);
    int32_t got = (i % 2 == 0) ? out[i / 2] : out[M + i / 2];
    if (!tie) VF_ASSERT((uint32_t)got == (uint32_t)(int64_t)rint(y), "complex -> torus32: round(x*2^32/d) mod 2^32 (ties excluded)");
  }
  VF_REACH();
}

/* ------------------------------------------------------------------ the conversions a MODULE actually carries (C01):
 * the product pipelines are analysed with contract stubs in place of these two kernels; the stubs are justified only if the
 * kernels selected by the real fill_module_precomp meet the contracts on the windows the precision budget needs:
 * int64 -> double exact for |x| < 2^50, double -> int64 within 1/2 of x/m for |x/m| < 2^52 (products inside the 52-bit budget). */
#ifdef MODULE_CONV
#include "apimod.h"
void h_module_from_znx64(void) {
  vf_fullmod fm;
  vf_fullmod_init_fft64(&fm, AVX);
  int64_t* x = (int64_t*)vf_alloc_words_raw(NN);
  double* out = alloc_d(NN);
  for (unsigned i = 0; i < NN; ++i) {
    x[i] = vf_i64();
    VF_ASSUME(x[i] > -(INT64_C(1) << 50) && x[i] < (INT64_C(1) << 50));
  }
  reim_from_znx64(fm.mod.mod.fft64.p_conv, out, x);
  for (unsigned i = 0; i < NN; ++i) VF_ASSERT(dbits(out[i]) == dbits((double)x[i]), "module's int64 -> double conversion is exact for |x| < 2^50");
  VF_REACH();
}
void h_module_to_znx64(void) {
  vf_fullmod fm;
  vf_fullmod_init_fft64(&fm, AVX);
  const double d = (double)(NN / 2);
  double* x = alloc_d(NN);
  int64_t* out = (int64_t*)vf_alloc_words(NN);
  const double lim = pow2(52) * d;
  for (unsigned i = 0; i < NN; ++i) {
    x[i] = vf_f64();
    VF_ASSUME(x[i] > -lim && x[i] < lim);
  }
  VF_ASSERT(fm.mod.mod.fft64.p_reim_to_znx->divisor == d, "module's rounding conversion divides by m");
  reim_to_znx64(fm.mod.mod.fft64.p_reim_to_znx, out, x);
  for (unsigned i = 0; i < NN; ++i) {
    VF_ASSERT(out[i] >= -(INT64_C(1) << 52) && out[i] <= (INT64_C(1) << 52), "result magnitude");
    double e = (double)out[i] * d - x[i];
    VF_ASSERT(e <= d / 2 && e >= -d / 2, "module's double -> int64 conversion is within 1/2 of x/m for |x/m| < 2^52");
  }
  VF_REACH();
}
#endif
