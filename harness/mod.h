/* Direct construction of a MODULE for harnesses ("drive the unit, not the program").
 *
 * The virtual table is filled by the REAL fill_virtual_table() of module_api.c (textually
 * included, so the static functions are reachable); only CPU detection is replaced by a harness
 * flag, and fill_module()'s memset + table builders are not run (DESIGN.md 2.1).  module_api.c
 * must therefore NOT be linked as a separate object by harnesses including this header.
 */
#ifndef VF_MOD_H
#define VF_MOD_H
#include "common.h"

#include "arithmetic/module_api.c" /* CPU_SUPPORTS() resolves to the harness flag, see cpu_hook.h */

/* no precomputed tables: enough for every coefficient-space / big-coefficient function */
static void vf_module_init_notables(MODULE* m, uint64_t nn, MODULE_TYPE t, int avx) {
  m->module_type = t;
  m->nn = nn;
  m->m = nn >> 1;
  vf_cpu_avx = avx;
  fill_virtual_table(m);
}
#endif
