/* Direct construction of a MODULE for harnesses ("drive the unit, not the program").
 *
 * The virtual table is filled by the REAL fill_virtual_table() of module_api.c (textually
 * included, so the static functions are reachable); only CPU detection is replaced by a harness
 * flag, and fill_module()'s memset + table builders are not run (DESIGN.md 2.1).  module_api.c
 * must therefore NOT be linked as a separate object by harnesses including this header.
 */
#ifndef VF_MOD_H
#define VF_MOD_H
#include "common.h"

/* the four table builders that the symbolic front end cannot execute (libm sin/cos, pointer<->integer casts, level search in
 * floating point) are redirected to harness functions returning objects built from the dumped tables (apimod.h); everything
 * else in module_api.c - fill_module_precomp, fill_virtual_table, the conversion / pointwise precomputations - is the real code */
#include "reim/reim_fft.h"
#include "q120/q120_ntt.h"
REIM_FFT_PRECOMP* vf_new_reim_fft_precomp(uint32_t m, uint32_t nb);
REIM_IFFT_PRECOMP* vf_new_reim_ifft_precomp(uint32_t m, uint32_t nb);
q120_ntt_precomp* vf_q120_new_ntt_bb_precomp(const uint64_t n);
q120_ntt_precomp* vf_q120_new_intt_bb_precomp(const uint64_t n);
#define new_reim_fft_precomp vf_new_reim_fft_precomp
#define new_reim_ifft_precomp vf_new_reim_ifft_precomp
#define q120_new_ntt_bb_precomp vf_q120_new_ntt_bb_precomp
#define q120_new_intt_bb_precomp vf_q120_new_intt_bb_precomp
#include "arithmetic/module_api.c" /* CPU_SUPPORTS() resolves to the harness flag, see cpu_hook.h */
#undef new_reim_fft_precomp
#undef new_reim_ifft_precomp
#undef q120_new_ntt_bb_precomp
#undef q120_new_intt_bb_precomp
#ifndef VF_HAVE_TABLE_BUILDERS
/* harnesses that never build tables */
REIM_FFT_PRECOMP* vf_new_reim_fft_precomp(uint32_t m, uint32_t nb) { (void)m; (void)nb; return 0; }
REIM_IFFT_PRECOMP* vf_new_reim_ifft_precomp(uint32_t m, uint32_t nb) { (void)m; (void)nb; return 0; }
q120_ntt_precomp* vf_q120_new_ntt_bb_precomp(const uint64_t n) { (void)n; return 0; }
q120_ntt_precomp* vf_q120_new_intt_bb_precomp(const uint64_t n) { (void)n; return 0; }
#endif

/* no precomputed tables: enough for every coefficient-space / big-coefficient function */
static void vf_module_init_notables(MODULE* m, uint64_t nn, MODULE_TYPE t, int avx) {
  m->module_type = t;
  m->nn = nn;
  m->m = nn >> 1;
  vf_cpu_avx = avx;
  fill_virtual_table(m);
}
#endif
