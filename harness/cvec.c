/* C17 / C07 / C13: complex-vector kernels (dot products, pointwise mul / addmul, windowed convolution).
 *   -DKERN= 0 reim4 mat1col (NROWS)   1 reim4 mat2cols (NROWS)
 *           2 reim fftvec mul (M)     3 reim fftvec addmul (M)
 *           4 reim4 fftvec mul (M)    5 reim4 fftvec addmul (M)
 *           6 cplx fftvec mul (M)     7 cplx fftvec addmul (M)
 *           8 reim4 convolution 1coeff (KIDX,SIZEA,SIZEB)   9 2coeff   10 windowed (DSIZE,DOFF,SIZEA,SIZEB)
 *   -DFN=<kernel>     -DALIAS= 0 separate output, 1 r==a, 2 r==b (kernels 2..7)
 * Inputs VF_A, VF_B (operands) and VF_R (previous contents of the destination), outputs VF_OUT.
 * CBMC/vcalg: exact real polynomials.  Native replay: the same definition evaluated in plain C on the replay inputs
 * (small integers, so every product and sum is exact in binary64). */
#include "common.h"
#include "reim4/reim4_arithmetic.h"
#include "reim4/reim4_fftvec_internal.h"
#include "reim4/reim4_fftvec_private.h"
#include "reim/reim_fft_internal.h"
#include "reim/reim_fft_private.h"
#include "cplx/cplx_fft_internal.h"
#include "cplx/cplx_fft_private.h"

#ifndef KERN
#define KERN 0
#endif
#ifndef NROWS
#define NROWS 2
#endif
#ifndef M
#define M 4
#endif
#ifndef KIDX
#define KIDX 0
#endif
#ifndef SIZEA
#define SIZEA 2
#endif
#ifndef SIZEB
#define SIZEB 2
#endif
#ifndef DSIZE
#define DSIZE 3
#endif
#ifndef DOFF
#define DOFF 0
#endif
#ifndef ALIAS
#define ALIAS 0
#endif

#if KERN == 0
#define NA (8 * NROWS)
#define NB (8 * NROWS)
#define NR 8
#elif KERN == 1
#define NA (8 * NROWS)
#define NB (16 * NROWS)
#define NR 16
#elif KERN <= 7
#define NA (2 * M)
#define NB (2 * M)
#define NR (2 * M)
#elif KERN == 8
#define NA (8 * SIZEA)
#define NB (8 * SIZEB)
#define NR 8
#elif KERN == 9
#define NA (8 * SIZEA)
#define NB (8 * SIZEB)
#define NR 16
#else
#define NA (8 * SIZEA)
#define NB (8 * SIZEB)
#define NR (8 * DSIZE)
#endif
#define D1(n) ((n) ? (n) : 1)

double VF_A[D1(NA)], VF_B[D1(NB)], VF_R[D1(NR)], VF_OUT[D1(NR)];

static double* dalloc(unsigned n) {
  double* p = (double*)malloc(n * sizeof(double));
#ifdef __CPROVER__
  __CPROVER_assume(p != 0);
#endif
  return p;
}

#ifndef __CPROVER__
/* complex helpers on (re,im) pairs for the native reference */
static void cmac(double* re, double* im, double ar, double ai, double br, double bi) {
  *re += ar * br - ai * bi;
  *im += ar * bi + ai * br;
}
#endif

void h_cvec(void) {
  double* a = dalloc(NA);
  double* b = dalloc(NB);
  for (unsigned i = 0; i < NA; ++i) a[i] = VF_A[i] = vf_f64();
  for (unsigned i = 0; i < NB; ++i) b[i] = VF_B[i] = vf_f64();
#if ALIAS == 1
  double* r = a; /* output is the very same buffer as operand a */
  for (unsigned i = 0; i < NR; ++i) VF_R[i] = a[i];
#elif ALIAS == 2
  double* r = b;
  for (unsigned i = 0; i < NR; ++i) VF_R[i] = b[i];
#else
  double* r = dalloc(NR);
  for (unsigned i = 0; i < NR; ++i) r[i] = VF_R[i] = vf_f64();
#endif

#if KERN == 0 || KERN == 1
  FN(NROWS, r, a, b);
#elif KERN == 2
  REIM_FFTVEC_MUL_PRECOMP p;
  p.m = M;
  p.function = FN;
  reim_fftvec_mul(&p, r, a, b);
#elif KERN == 3
  REIM_FFTVEC_ADDMUL_PRECOMP p;
  p.m = M;
  p.function = FN;
  reim_fftvec_addmul(&p, r, a, b);
#elif KERN == 4
  REIM4_FFTVEC_MUL_PRECOMP p;
  p.m = M;
  p.function = FN;
  reim4_fftvec_mul(&p, r, a, b);
#elif KERN == 5
  REIM4_FFTVEC_ADDMUL_PRECOMP p;
  p.m = M;
  p.function = FN;
  reim4_fftvec_addmul(&p, r, a, b);
#elif KERN == 6
  CPLX_FFTVEC_MUL_PRECOMP p;
  p.m = M;
  p.function = FN;
  cplx_fftvec_mul(&p, r, a, b);
#elif KERN == 7
  CPLX_FFTVEC_ADDMUL_PRECOMP p;
  p.m = M;
  p.function = FN;
  cplx_fftvec_addmul(&p, r, a, b);
#elif KERN == 8 || KERN == 9
  FN(KIDX, r, a, SIZEA, b, SIZEB);
#else
  FN(r, DSIZE, DOFF, a, SIZEA, b, SIZEB);
#endif
  for (unsigned i = 0; i < NR; ++i) VF_OUT[i] = r[i];
#if ALIAS == 0
  for (unsigned i = 0; i < NA; ++i) VF_ASSERT(a[i] == VF_A[i] || (a[i] != a[i] && VF_A[i] != VF_A[i]), "operand a untouched");
#endif
#if ALIAS != 2
  for (unsigned i = 0; i < NB; ++i) VF_ASSERT(b[i] == VF_B[i] || (b[i] != b[i] && VF_B[i] != VF_B[i]), "operand b untouched");
#endif

#ifndef __CPROVER__
  /* the complex-arithmetic definition, evaluated on the (integer-valued) replay inputs */
  double ex[D1(NR)];
  for (unsigned i = 0; i < NR; ++i) ex[i] = 0;
#if KERN == 0 || KERN == 1
  for (unsigned c = 0; c < (KERN == 0 ? 1 : 2); ++c)
    for (unsigned row = 0; row < NROWS; ++row)
      for (unsigned k = 0; k < 4; ++k) {
        const double* u = VF_A + 8 * row;
        const double* v = VF_B + (KERN == 0 ? 8 * row : 16 * row + 8 * c);
        cmac(&ex[8 * c + k], &ex[8 * c + 4 + k], u[k], u[4 + k], v[k], v[4 + k]);
      }
#elif KERN >= 2 && KERN <= 7
  for (unsigned i = 0; i < M; ++i) {
    unsigned ire, iim;
#if KERN <= 3
    ire = i;
    iim = M + i;
#elif KERN <= 5
    ire = 8 * (i / 4) + i % 4;
    iim = ire + 4;
#else
    ire = 2 * i;
    iim = 2 * i + 1;
#endif
    if (KERN % 2 == 1) {
      ex[ire] = VF_R[ire];
      ex[iim] = VF_R[iim];
    }
    cmac(&ex[ire], &ex[iim], VF_A[ire], VF_A[iim], VF_B[ire], VF_B[iim]);
  }
#else
  {
    unsigned ncoef = KERN == 8 ? 1 : (KERN == 9 ? 2 : DSIZE), k0 = KERN == 10 ? DOFF : KIDX;
    for (unsigned c = 0; c < ncoef; ++c)
      for (unsigned i = 0; i < SIZEA; ++i)
        for (unsigned j = 0; j < SIZEB; ++j)
          if (i + j == k0 + c)
            for (unsigned k = 0; k < 4; ++k)
              cmac(&ex[8 * c + k], &ex[8 * c + 4 + k], VF_A[8 * i + k], VF_A[8 * i + 4 + k], VF_B[8 * j + k], VF_B[8 * j + 4 + k]);
  }
#endif
  for (unsigned i = 0; i < NR; ++i) VF_ASSERT(VF_OUT[i] == ex[i], "kernel result equals the complex-arithmetic definition (exact on integer-valued inputs)");
#endif
  VF_REACH();
}
