/* Limb-vector operations through the public API (C08, C09 wrappers, C13, C18, C11, C07 dispatch).
 *   -DOP=   0 zero 1 copy 2 negate 3 add 4 sub 5 rotate 6 automorphism
 *   -DVAR=  0 small int64 vectors (vec_znx_*)
 *           1 big: res,a,b big            (vec_znx_big_add / sub / rotate / automorphism)
 *           2 big: res,a big, b small     (big_add_small / big_sub_small_b)
 *           3 big: res big, a small,b big (big_sub_small_a)            [sub only]
 *           4 big: res big, a,b small     (big_add_small2 / big_sub_small2)
 *   -DNN -DRSZ -DASZ -DBSZ -DRSL -DASL -DBSL  (strides of big operands are forced to NN)
 *   -DAVX=0|1   CPU dispatch flag seen by the real fill_virtual_table
 *   -DALIAS= 0 none, 1 res==a, 2 res==b, 3 res==a==b   (same pointer, same stride)
 *            4 res==a with the strides as given (different): well defined when a has at most one limb - only limb 0 is shared
 *   -DPMODE= 0 concrete -DP=..., 1 fully symbolic int64 (odd for automorphism), 2 residue -DPR=.. + 2N*q, q symbolic
 */
#include "mod.h"

#ifndef OP
#define OP 3
#endif
#ifndef VAR
#define VAR 0
#endif
#ifndef NN
#define NN 2
#endif
#ifndef RSZ
#define RSZ 2
#endif
#ifndef ASZ
#define ASZ 2
#endif
#ifndef BSZ
#define BSZ 2
#endif
#ifndef RSL
#define RSL NN
#endif
#ifndef ASL
#define ASL NN
#endif
#ifndef BSL
#define BSL NN
#endif
#ifndef AVX
#define AVX 0
#endif
#ifndef ALIAS
#define ALIAS 0
#endif
#ifndef PMODE
#define PMODE 0
#endif
#ifndef P
#define P 1
#endif
#ifndef PR
#define PR 1
#endif

#define HAS_A (OP != 0)
#define HAS_B (OP == 3 || OP == 4)

/* effective strides: big operands have stride NN */
#if VAR == 0
#define E_RSL RSL
#define E_ASL ASL
#define E_BSL BSL
#elif VAR == 1
#define E_RSL NN
#define E_ASL NN
#define E_BSL NN
#elif VAR == 2
#define E_RSL NN
#define E_ASL NN
#define E_BSL BSL
#elif VAR == 3
#define E_RSL NN
#define E_ASL ASL
#define E_BSL NN
#else
#define E_RSL NN
#define E_ASL ASL
#define E_BSL BSL
#endif

static uint64_t umax(uint64_t x, uint64_t y) { return x > y ? x : y; }

/* ring-map specification on one limb: out (zero-initialised by caller) receives the image */
static void spec_rotate(int64_t p, const int64_t* in, int64_t* out) {
  for (uint64_t j = 0; j < NN; ++j) {
    uint64_t e = ((uint64_t)j + (uint64_t)p) & (2 * NN - 1); /* (j+p) mod 2N: 2^64 is a multiple of 2N */
    if (e < NN)
      out[e] = in[j];
    else
      out[e - NN] = (int64_t)(0 - (uint64_t)in[j]);
  }
}
static void spec_automorphism(int64_t p, const int64_t* in, int64_t* out) {
  for (uint64_t j = 0; j < NN; ++j) {
    uint64_t e = ((uint64_t)j * (uint64_t)p) & (2 * NN - 1); /* j*p mod 2N */
    if (e < NN)
      out[e] = in[j];
    else
      out[e - NN] = (int64_t)(0 - (uint64_t)in[j]);
  }
}

int vf_marker; /* assigned once the module exists: the C12 write-set analysis (vf.alg.uf) looks at what the call assigns afterwards */

void h_vecop(void) {
  MODULE mod;
  vf_module_init_notables(&mod, NN, FFT64, AVX);
  vf_marker = 1;

  int64_t p = P;
#if PMODE == 1
  p = vf_i64();
#elif PMODE == 2
  {
    int64_t q = vf_i64();
    VF_ASSUME(q >= -(INT64_C(1) << 40) && q <= (INT64_C(1) << 40)); /* keeps PR + 2N*q inside int64 */
    p = (int64_t)PR + (int64_t)(2 * NN) * q;
  }
#endif
#if OP == 6
  VF_ASSUME(p & 1); /* automorphisms are defined for odd p */
#endif

  /* effective strides under aliasing (same pointer, same stride) */
  uint64_t rsl = E_RSL, asl = E_ASL, bsl = E_BSL;
#if ALIAS == 1 || ALIAS == 3
  rsl = asl;
#endif
#if ALIAS == 2
  rsl = bsl;
#endif
#if ALIAS == 3
  bsl = asl;
#endif
  const uint64_t r_words = vf_extent(RSZ, rsl, NN);
  uint64_t a_words = HAS_A ? vf_extent(ASZ, asl, NN) : 0;
  uint64_t b_words = HAS_B ? vf_extent(BSZ, bsl, NN) : 0;
#if ALIAS == 1 || ALIAS == 4
  a_words = umax(a_words, r_words);
#elif ALIAS == 2
  b_words = umax(b_words, r_words);
#elif ALIAS == 3
  a_words = umax(umax(a_words, b_words), r_words);
  b_words = a_words;
#endif

  int64_t* a = HAS_A ? (int64_t*)vf_alloc_words(a_words) : 0;
#if ALIAS == 3
  int64_t* b = a;
#else
  int64_t* b = HAS_B ? (int64_t*)vf_alloc_words(b_words) : 0;
#endif
#if ALIAS == 1 || ALIAS == 3 || ALIAS == 4
  int64_t* res = a;
  const uint64_t res_words = a_words;
#elif ALIAS == 2
  int64_t* res = b;
  const uint64_t res_words = b_words;
#else
  int64_t* res = (int64_t*)vf_alloc_words(r_words);
  const uint64_t res_words = r_words;
#endif
  int64_t* a0 = HAS_A ? (int64_t*)vf_snapshot((uint64_t*)a, a_words) : 0;
  int64_t* b0 = HAS_B ? (int64_t*)vf_snapshot((uint64_t*)b, b_words) : 0;
  int64_t* r0 = (int64_t*)vf_snapshot((uint64_t*)res, res_words);

  /* ------------------------------------------------------------ the call (public API) */
#if VAR == 0
#if OP == 0
  vec_znx_zero(&mod, res, RSZ, rsl);
#elif OP == 1
  vec_znx_copy(&mod, res, RSZ, rsl, a, ASZ, asl);
#elif OP == 2
  vec_znx_negate(&mod, res, RSZ, rsl, a, ASZ, asl);
#elif OP == 3
  vec_znx_add(&mod, res, RSZ, rsl, a, ASZ, asl, b, BSZ, bsl);
#elif OP == 4
  vec_znx_sub(&mod, res, RSZ, rsl, a, ASZ, asl, b, BSZ, bsl);
#elif OP == 5
  vec_znx_rotate(&mod, p, res, RSZ, rsl, a, ASZ, asl);
#elif OP == 6
  vec_znx_automorphism(&mod, p, res, RSZ, rsl, a, ASZ, asl);
#endif
#elif VAR == 1
#if OP == 3
  vec_znx_big_add(&mod, (VEC_ZNX_BIG*)res, RSZ, (VEC_ZNX_BIG*)a, ASZ, (VEC_ZNX_BIG*)b, BSZ);
#elif OP == 4
  vec_znx_big_sub(&mod, (VEC_ZNX_BIG*)res, RSZ, (VEC_ZNX_BIG*)a, ASZ, (VEC_ZNX_BIG*)b, BSZ);
#elif OP == 5
  vec_znx_big_rotate(&mod, p, (VEC_ZNX_BIG*)res, RSZ, (VEC_ZNX_BIG*)a, ASZ);
#elif OP == 6
  vec_znx_big_automorphism(&mod, p, (VEC_ZNX_BIG*)res, RSZ, (VEC_ZNX_BIG*)a, ASZ);
#else
#error "no such big variant"
#endif
#elif VAR == 2
#if OP == 3
  vec_znx_big_add_small(&mod, (VEC_ZNX_BIG*)res, RSZ, (VEC_ZNX_BIG*)a, ASZ, b, BSZ, bsl);
#elif OP == 4
  vec_znx_big_sub_small_b(&mod, (VEC_ZNX_BIG*)res, RSZ, (VEC_ZNX_BIG*)a, ASZ, b, BSZ, bsl);
#else
#error "no such big variant"
#endif
#elif VAR == 3
#if OP == 4
  vec_znx_big_sub_small_a(&mod, (VEC_ZNX_BIG*)res, RSZ, a, ASZ, asl, (VEC_ZNX_BIG*)b, BSZ);
#else
#error "no such big variant"
#endif
#elif VAR == 4
#if OP == 3
  vec_znx_big_add_small2(&mod, (VEC_ZNX_BIG*)res, RSZ, a, ASZ, asl, b, BSZ, bsl);
#elif OP == 4
  vec_znx_big_sub_small2(&mod, (VEC_ZNX_BIG*)res, RSZ, a, ASZ, asl, b, BSZ, bsl);
#else
#error "no such big variant"
#endif
#endif

  /* ------------------------------------------------------------ specification */
  for (uint64_t i = 0; i < RSZ; ++i) {
    int64_t la[NN], lb[NN], ex[NN];
    for (uint64_t j = 0; j < NN; ++j) {
      la[j] = (HAS_A && i < ASZ) ? a0[i * asl + j] : 0;
      lb[j] = (HAS_B && i < BSZ) ? b0[i * bsl + j] : 0;
      ex[j] = 0;
    }
#if OP == 1
    for (uint64_t j = 0; j < NN; ++j) ex[j] = la[j];
#elif OP == 2
    for (uint64_t j = 0; j < NN; ++j) ex[j] = (int64_t)(0 - (uint64_t)la[j]);
#elif OP == 3
    for (uint64_t j = 0; j < NN; ++j) ex[j] = (int64_t)((uint64_t)la[j] + (uint64_t)lb[j]);
#elif OP == 4
    for (uint64_t j = 0; j < NN; ++j) ex[j] = (int64_t)((uint64_t)la[j] - (uint64_t)lb[j]);
#elif OP == 5
    spec_rotate(p, la, ex);
#elif OP == 6
    spec_automorphism(p, la, ex);
#endif
    for (uint64_t j = 0; j < NN; ++j)
      VF_ASSERT(res[i * rsl + j] == ex[j], "output limb i = op(input limbs i, missing limbs read as zero)");
  }
  /* exactly N coefficients of the first RSZ limbs are written */
  for (uint64_t w = 0; w < res_words; ++w) {
    if (w >= r_words || (w % rsl) >= NN || (w / rsl) >= RSZ)
      VF_ASSERT(res[w] == r0[w], "res: padding between limbs and limbs past res_size untouched");
  }
  /* sources untouched unless they are the output buffer */
#if ALIAS == 0 || ALIAS == 2
  for (uint64_t w = 0; w < a_words; ++w) VF_ASSERT(a[w] == a0[w], "source a bit-for-bit unchanged");
#endif
#if ALIAS == 0 || ALIAS == 1 || ALIAS == 4
  for (uint64_t w = 0; w < b_words; ++w) VF_ASSERT(b[w] == b0[w], "source b bit-for-bit unchanged");
#endif
  VF_REACH();
}

/* ------------------------------------------------------------------------------------------
 * raw coefficient kernels of coeffs_arithmetic.c: rotate / (X^p-1) / automorphism, int64 and
 * double, out-of-place and in-place, in one query (in-place result == out-of-place result == spec)
 *   -DKOP= 0 rotate 1 mul_xp_minus_one 2 automorphism     -DDBL=0|1
 */
#include "coeffs/coeffs_arithmetic.h"
#ifndef KOP
#define KOP 0
#endif
#ifndef DBL
#define DBL 0
#endif
void znx_automorphism_inplace_i64(uint64_t nn, int64_t p, int64_t* res);
void rnx_automorphism_inplace_f64(uint64_t nn, int64_t p, double* res);

#if DBL
typedef double elt_t;
static inline elt_t vf_elt(void) { return vf_f64(); }
static inline uint64_t bits_of(elt_t x) {
  union {
    double d;
    uint64_t u;
  } c;
  c.d = x;
  return c.u;
}
#else
typedef int64_t elt_t;
static inline elt_t vf_elt(void) { return vf_i64(); }
static inline uint64_t bits_of(elt_t x) { return (uint64_t)x; }
#endif
static inline elt_t elt_neg(elt_t x) {
#if DBL
  return -x; /* IEEE negate = sign-bit flip, also on NaN and zero */
#else
  return (elt_t)(0 - (uint64_t)x);
#endif
}
static inline elt_t elt_sub(elt_t x, elt_t y) {
#if DBL
  return x - y;
#else
  return (elt_t)((uint64_t)x - (uint64_t)y);
#endif
}
static elt_t* alloc_elts(uint64_t n) {
  elt_t* p = (elt_t*)malloc(n * sizeof(elt_t));
#ifdef __CPROVER__
  __CPROVER_assume(p != 0);
#endif
#ifdef CONCRETE_PROBE
  /* large N: the maps are data-independent signed permutations, so one injective probe vector per (N, p) determines the behaviour on all inputs
   * (property text); with concrete data and concrete p the symbolic engine executes the kernel as an interpreter */
  for (uint64_t i = 0; i < n; ++i) p[i] = (elt_t)(int64_t)(i + 1);
#else
  for (uint64_t i = 0; i < n; ++i) p[i] = vf_elt();
#endif
  return p;
}

void h_kernel(void) {
  int64_t p = P;
#if PMODE == 1
  p = vf_i64();
#elif PMODE == 2
  {
    int64_t q = vf_i64();
    VF_ASSUME(q >= -(INT64_C(1) << 40) && q <= (INT64_C(1) << 40));
    p = (int64_t)PR + (int64_t)(2 * NN) * q;
  }
#endif
#if KOP == 2
  VF_ASSUME(p & 1);
#endif
  /* typed buffers: the specification below applies the same element operations (negate, subtract)
   * to the same symbols, so for doubles no IEEE circuit has to be compared with another one */
  elt_t* in = alloc_elts(NN);
#ifdef PROBE
  /* rnx (X^p-1) with symbolic p: SAT cannot decide an IEEE subtraction behind symbolic indexing
   * (probe: no answer in 600 s at N=2).  The map is a data-independent signed permutation followed
   * by "- in[j]", so here the data is the injective probe in[j] = 2^j (every +-2^a - 2^j is exact and
   * identifies a, the sign and j); all-data obligations for this kernel use concrete p (every residue). */
  for (uint64_t j = 0; j < NN; ++j) in[j] = (elt_t)(UINT64_C(1) << j);
#endif
  elt_t in0[NN];
  elt_t* out = alloc_elts(NN);
  elt_t* inp = alloc_elts(NN); /* in-place operand */
  for (uint64_t j = 0; j < NN; ++j) {
    in0[j] = in[j];
    inp[j] = in[j];
  }

#if !DBL
#if KOP == 0
  znx_rotate_i64(NN, p, out, in);
  znx_rotate_inplace_i64(NN, p, inp);
#elif KOP == 1
  znx_mul_xp_minus_one(NN, p, out, in);
  /* no int64 in-place form exists */
#else
  znx_automorphism_i64(NN, p, out, in);
  znx_automorphism_inplace_i64(NN, p, inp);
#endif
#else
#if KOP == 0
  rnx_rotate_f64(NN, p, out, in);
  rnx_rotate_inplace_f64(NN, p, inp);
#elif KOP == 1
  rnx_mul_xp_minus_one(NN, p, out, in);
  rnx_mul_xp_minus_one_inplace(NN, p, inp);
#else
  rnx_automorphism_f64(NN, p, out, in);
  rnx_automorphism_inplace_f64(NN, p, inp);
#endif
#endif

  /* specification: the signed permutation j -> (j+p) resp. j*p mod 2N */
  elt_t ex[NN];
  for (uint64_t j = 0; j < NN; ++j) {
#if KOP == 2
    uint64_t e = ((uint64_t)j * (uint64_t)p) & (2 * NN - 1);
#else
    uint64_t e = ((uint64_t)j + (uint64_t)p) & (2 * NN - 1);
#endif
    if (e >= NN)
      ex[e - NN] = elt_neg(in0[j]);
    else
      ex[e] = in0[j];
  }
  for (uint64_t j = 0; j < NN; ++j) {
#if KOP == 1
    elt_t want = elt_sub(ex[j], in0[j]);
#else
    elt_t want = ex[j];
#endif
    VF_ASSERT(bits_of(out[j]) == bits_of(want), "out-of-place kernel = ring map");
#if !(KOP == 1 && !DBL)
    VF_ASSERT(bits_of(inp[j]) == bits_of(want), "in-place kernel = ring map (= out-of-place result)");
#endif
    VF_ASSERT(bits_of(in[j]) == bits_of(in0[j]), "kernel input untouched");
  }
  VF_REACH();
}
