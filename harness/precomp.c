/* C06 (tables are read-only) / C11: layout of the objects built by new_{reim,cplx}_{fft,ifft}_precomp(m, num_buffers): the twiddle table and
 * the num_buffers work buffers handed out by *_precomp_get_buffer live in one allocation.  The REAL builder runs (sin/cos have no body for the
 * symbolic front end: the table values are arbitrary here, their placement is not); then every buffer is filled with arbitrary data:
 *   - the builder's own writes land inside the allocation (CBMC pointer checks),
 *   - the table region the kernels read (2m doubles reim / 4m doubles cplx, at least 8) and the num_buffers buffers of m complexes are inside the
 *     allocation and pairwise disjoint (address form under CBMC; natively: fill every buffer, the table keeps its bits, the buffers their data).
 *   -DKIND= 0 reim fft 1 reim ifft 2 cplx fft 3 cplx ifft   -DM=<m>   -DNB=<number of buffers>   -DAVX */
#include "common.h"
#include "reim/reim_fft_internal.h"
#include "reim/reim_fft_private.h"
#include "cplx/cplx_fft_internal.h"
#include "cplx/cplx_fft_private.h"
#ifndef KIND
#define KIND 0
#endif
#ifndef M
#define M 8
#endif
#ifndef NB
#define NB 2
#endif
#ifndef AVX
#define AVX 0
#endif
#if KIND <= 1
#define TW ((2 * M) < 8 ? 8 : (2 * M))
#else
#define TW ((4 * M) < 8 ? 8 : (4 * M))
#endif

void h_precomp(void) {
  vf_cpu_avx = AVX;
#if KIND == 0
  REIM_FFT_PRECOMP* p = new_reim_fft_precomp(M, NB);
#define GETBUF(i) reim_fft_precomp_get_buffer(p, i)
#elif KIND == 1
  REIM_IFFT_PRECOMP* p = new_reim_ifft_precomp(M, NB);
#define GETBUF(i) reim_ifft_precomp_get_buffer(p, i)
#elif KIND == 2
  CPLX_FFT_PRECOMP* p = new_cplx_fft_precomp(M, NB);
#define GETBUF(i) cplx_fft_precomp_get_buffer(p, i)
#else
  CPLX_IFFT_PRECOMP* p = new_cplx_ifft_precomp(M, NB);
#define GETBUF(i) cplx_ifft_precomp_get_buffer(p, i)
#endif
  const uint64_t* tab = (const uint64_t*)p->powomegas;
#ifdef __CPROVER__
  /* address form (no data flows through memory: the query stays small for every m): table region and work buffers are parts of the one
   * allocation `p`, inside its size, and pairwise disjoint */
  const uint64_t osz = __CPROVER_OBJECT_SIZE(p);
  const uint64_t t0 = __CPROVER_POINTER_OFFSET(tab), t1 = t0 + 8 * (uint64_t)TW;
  VF_ASSERT(__CPROVER_POINTER_OBJECT(tab) == __CPROVER_POINTER_OBJECT(p) && t0 >= sizeof(*p) && t1 <= osz, "twiddle table inside the allocation, after the header");
  uint64_t b0[NB ? NB : 1], b1[NB ? NB : 1];
  for (unsigned b = 0; b < NB; ++b) {
    const void* buf = GETBUF(b);
    b0[b] = __CPROVER_POINTER_OFFSET(buf);
    b1[b] = b0[b] + 16 * (uint64_t)M;
    VF_ASSERT(__CPROVER_POINTER_OBJECT(buf) == __CPROVER_POINTER_OBJECT(p) && b1[b] <= osz, "work buffer inside the allocation");
    VF_ASSERT(b0[b] >= t1 || b1[b] <= t0, "work buffer does not overlap the twiddle table");
    VF_ASSERT((b0[b] - t0) % 32 == 0, "work buffer aligned like the table (32 bytes at least)");
    for (unsigned c = 0; c < b; ++c) VF_ASSERT(b0[b] >= b1[c] || b1[b] <= b0[c], "work buffers are pairwise disjoint");
  }
#else
  uint64_t snap[TW];
  for (unsigned i = 0; i < TW; ++i) snap[i] = tab[i];
  uint64_t w[NB ? NB : 1][2 * M];
  for (unsigned b = 0; b < NB; ++b) {
    uint64_t* buf = (uint64_t*)GETBUF(b);
    for (unsigned j = 0; j < 2 * M; ++j) {
      w[b][j] = vf_u64() | 1;
      buf[j] = w[b][j];
    }
  }
  for (unsigned i = 0; i < TW; ++i) VF_ASSERT(tab[i] == snap[i], "twiddle table untouched by writes to the precomp's work buffers");
  for (unsigned b = 0; b < NB; ++b) {
    const uint64_t* buf = (const uint64_t*)GETBUF(b);
    for (unsigned j = 0; j < 2 * M; ++j) VF_ASSERT(buf[j] == w[b][j], "work buffers are pairwise disjoint");
  }
#endif
  VF_REACH();
}
