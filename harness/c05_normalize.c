/* C05: base-2^k normalization.  Shapes are -D constants, data is nondeterministic.
 *   -DK=<1..62>
 *   prim:   -DSHAPE=<0..5>  which of out/carry_out/carry_in are present
 *   vec:    -DNN -DRSZ -DASZ -DRSL -DASL [-DINPLACE] [-DVIA=0 module dispatch | 1 big | 2 range]
 *           range: -DRB -DRE -DRS  (begin, xend, step) and -DBIGSZ (limbs of the big vector)
 */
#include "mod.h"
#include "coeffs/coeffs_arithmetic.h"

#ifndef K
#define K 19
#endif

typedef __int128 i128;

/* exact (128-bit) balanced digit / carry: the mathematical definition */
static int64_t spec_digit(i128 t) {
  i128 m = ((i128)1 << K);
  i128 r = t & (m - 1); /* t mod 2^K in [0,2^K) : two's complement AND on int128 is exact here */
  if (r >= (m >> 1)) r -= m;
  return (int64_t)r;
}
static i128 spec_carry(i128 t, int64_t d) { return (t - d) >> K; /* exact: t-d is a multiple of 2^K */ }

static int64_t in_range62(void) {
  int64_t x = vf_i64();
  VF_ASSUME(x >= -(INT64_C(1) << 62) && x <= (INT64_C(1) << 62));
  return x;
}

/* ---------------------------------------------------------------- single-limb primitive */
#ifndef SHAPE
#define SHAPE 0
#endif
#define PN 2
void h_prim(void) {
  /* SHAPE bit0: carry_in present, bit1: carry_out present, bit2: out absent */
  const int has_cin = SHAPE & 1, has_cout = (SHAPE >> 1) & 1, has_out = !((SHAPE >> 2) & 1);
  int64_t* in = (int64_t*)vf_alloc_words_raw(PN);
  int64_t* cin = has_cin ? (int64_t*)vf_alloc_words_raw(PN) : 0;
  int64_t* out = has_out ? (int64_t*)vf_alloc_words(PN) : 0;
  int64_t* cout = has_cout ? (int64_t*)vf_alloc_words(PN) : 0;
  for (int i = 0; i < PN; ++i) {
    in[i] = in_range62();
    if (has_cin) {
      int64_t c = vf_i64();
#if K >= 2
      /* documented: carries have at most 64+1-K bits, i.e. [-2^(64-K), 2^(64-K)-1] */
      VF_ASSUME(c >= -(INT64_C(1) << (64 - K)) && c <= (INT64_C(1) << (64 - K)) - 1);
#else
      /* K=1: "64 bits" would allow digit+carry_in to leave int64 (in=-1, cin=INT64_MIN); no chain of
       * in-range limbs produces such a carry, so the claim is made for |cin| <= 2^62 */
      VF_ASSUME(c >= -(INT64_C(1) << 62) && c <= (INT64_C(1) << 62));
#endif
      cin[i] = c;
    }
  }
  int64_t in0[PN], cin0[PN];
  for (int i = 0; i < PN; ++i) {
    in0[i] = in[i];
    cin0[i] = has_cin ? cin[i] : 0;
  }
  znx_normalize(PN, K, out, cout, in, cin);
  for (int i = 0; i < PN; ++i) {
    i128 t = (i128)in0[i] + (i128)cin0[i];
    int64_t d = spec_digit(t);
    i128 c = spec_carry(t, d);
    if (has_out) {
      VF_ASSERT(out[i] == d, "normalize primitive: out is the balanced digit of in+carry_in");
      VF_ASSERT(out[i] >= -(INT64_C(1) << (K - 1)) && out[i] < (INT64_C(1) << (K - 1)), "normalize primitive: out in [-2^(k-1),2^(k-1))");
    }
    if (has_cout) {
      VF_ASSERT((i128)cout[i] == c, "normalize primitive: in + carry_in == out + carry_out*2^k (exact, 128-bit)");
    }
    VF_ASSERT(in[i] == in0[i], "normalize primitive: input untouched");
    if (has_cin) VF_ASSERT(cin[i] == cin0[i], "normalize primitive: carry_in untouched");
  }
  VF_REACH();
}

/* ---------------------------------------------------------------- vector level */
#ifndef NN
#define NN 1
#endif
#ifndef RSZ
#define RSZ 2
#endif
#ifndef ASZ
#define ASZ 2
#endif
#ifndef RSL
#define RSL (NN + 1)
#endif
#ifndef ASL
#define ASL (NN + 2)
#endif
#ifndef VIA
#define VIA 0
#endif
#ifndef AVX
#define AVX 0
#endif
#ifndef RB
#define RB 0
#endif
#ifndef RE
#define RE ASZ
#endif
#ifndef RS
#define RS 1
#endif
#ifndef BIGSZ
#define BIGSZ ASZ
#endif

/* reference: digits of T = sum a_i 2^(K(asz-1-i)) mod 2^(K asz), least significant limb = last */
static void spec_vec(uint64_t asz, const int64_t* a /* [asz] one coefficient per limb */, int64_t* dig) {
  i128 carry = 0;
  for (int64_t i = (int64_t)asz - 1; i >= 0; --i) {
    i128 t = (i128)a[i] + carry;
    int64_t d = spec_digit(t);
    carry = spec_carry(t, d);
    dig[i] = d;
  }
}

void h_vec(void) {
  MODULE mod;
  vf_module_init_notables(&mod, NN, FFT64, AVX);
  uint64_t tmpb = 0;
  /* sizes seen by the normalizer */
#if VIA == 2
  const uint64_t asz = (RE + RS - 1 - RB) / RS; /* number of selected limbs (independent of the code's formula when RB<=RE) */
  const uint64_t a_words = (uint64_t)BIGSZ * NN;
#elif VIA == 1
  const uint64_t asz = ASZ;
  const uint64_t a_words = (uint64_t)ASZ * NN;
#else
  const uint64_t asz = ASZ;
  const uint64_t a_words = vf_extent(ASZ, ASL, NN);
#endif
  const uint64_t r_words = vf_extent(RSZ, RSL, NN);
#if VIA == 2
  tmpb = vec_znx_big_range_normalize_base2k_tmp_bytes(&mod);
#elif VIA == 1
  tmpb = vec_znx_big_normalize_base2k_tmp_bytes(&mod);
#else
  tmpb = vec_znx_normalize_base2k_tmp_bytes(&mod);
#endif
  VF_ASSERT(tmpb % 8 == 0, "tmp_bytes multiple of 8");
#ifdef INPLACE
  /* res is the very same buffer as a (same pointer, same stride); the buffer holds the larger extent */
  const uint64_t rsl = (VIA == 0) ? ASL : NN;
  const uint64_t r_words_eff = vf_extent(RSZ, rsl, NN);
  const uint64_t buf_words = a_words > r_words_eff ? a_words : r_words_eff;
#else
  const uint64_t rsl = RSL;
  const uint64_t r_words_eff = r_words;
  const uint64_t buf_words = a_words;
#endif
  int64_t* a = (int64_t*)vf_alloc_words_raw(buf_words);
  for (uint64_t i = 0; i < buf_words; ++i) a[i] = in_range62();
  int64_t* a0 = (int64_t*)vf_snapshot((uint64_t*)a, buf_words);
#ifdef INPLACE
  int64_t* res = a;
#else
  int64_t* res = (int64_t*)vf_alloc_words(r_words);
#endif
  int64_t* r0 = (int64_t*)vf_snapshot((uint64_t*)res, r_words_eff);
  uint8_t* tmp = (uint8_t*)vf_alloc_words(tmpb / 8);

#if VIA == 2
  vec_znx_big_range_normalize_base2k(&mod, K, res, RSZ, rsl, (VEC_ZNX_BIG*)a, RB, RE, RS, tmp);
#elif VIA == 1
  vec_znx_big_normalize_base2k(&mod, K, res, RSZ, rsl, (VEC_ZNX_BIG*)a, ASZ, tmp);
#else
  vec_znx_normalize_base2k(&mod, K, res, RSZ, rsl, a, ASZ, ASL, tmp);
#endif

  for (uint64_t j = 0; j < NN; ++j) {
    int64_t col[8], dig[8];
    for (uint64_t i = 0; i < asz; ++i) {
#if VIA == 2
      col[i] = a0[(RB + i * RS) * NN + j];
#elif VIA == 1
      col[i] = a0[i * NN + j];
#else
      col[i] = a0[i * ASL + j];
#endif
    }
    spec_vec(asz, col, dig);
    for (uint64_t i = 0; i < RSZ; ++i) {
      int64_t expect = i < asz ? dig[i] : 0;
      VF_ASSERT(res[i * rsl + j] == expect, "normalize: output limb i is digit i of the balanced expansion (0 beyond a_size)");
    }
  }
  /* nothing but the N coefficients of the first RSZ limbs of res is written */
  for (uint64_t w = 0; w < r_words_eff; ++w) {
    if ((w % rsl) >= NN || (w / rsl) >= RSZ) VF_ASSERT(res[w] == r0[w], "normalize: padding / extra limbs of res untouched");
  }
#ifndef INPLACE
  for (uint64_t w = 0; w < a_words; ++w) VF_ASSERT(a[w] == a0[w], "normalize: input untouched");
#else
  for (uint64_t w = 0; w < buf_words; ++w) {
    if (w >= r_words_eff || (w % rsl) >= NN || (w / rsl) >= RSZ) VF_ASSERT(a[w] == a0[w], "normalize in place: words outside the res limbs untouched");
  }
#endif
  VF_REACH();
}
