/* native replay driver: ./replay.exe inputs.txt  (one decimal 64-bit word per line) */
#include <stdint.h>
#include <stdio.h>
#include <stdlib.h>
#ifndef VF_MAX_IN
#define VF_MAX_IN 4096
#endif
uint64_t vf_in[VF_MAX_IN];
unsigned vf_nin, vf_navail;
int vf_nowrap;
int vf_cpu_avx;
int vf_cpu_supports(const char* feature) { (void)feature; return vf_cpu_avx; }
void VF_ENTRY(void);
int main(int argc, char** argv) {
  if (argc > 1) {
    FILE* f = fopen(argv[1], "r");
    if (!f) return 2;
    unsigned long long v;
    while (vf_navail < VF_MAX_IN && fscanf(f, "%llu", &v) == 1) vf_in[vf_navail++] = v;
    fclose(f);
  }
  VF_ENTRY();
  printf("VF_REPLAY_OK inputs_used=%u of %u\n", vf_nin, vf_navail);
  return 0;
}
