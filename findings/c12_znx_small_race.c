#include <pthread.h>
#include <stdio.h>
#include <stdlib.h>
#include "arithmetic/vec_znx_arithmetic.h"
static MODULE* mod;
static void* worker(void* arg) {
  uint64_t n = module_get_n(mod);
  int64_t* a = calloc(n, 8); int64_t* b = calloc(n, 8); int64_t* r = calloc(n, 8);
  a[0] = 1 + (long)arg; b[1] = 2;
  uint8_t* tmp = malloc(znx_small_single_product_tmp_bytes(mod));
  znx_small_single_product(mod, r, a, b, tmp);
  printf("thread %ld: r[1]=%ld\n", (long)arg, (long)r[1]);
  return 0;
}
int main(void) {
  mod = new_module_info(64, FFT64);
  pthread_t t[2];
  for (long i = 0; i < 2; ++i) pthread_create(&t[i], 0, worker, (void*)i);
  for (int i = 0; i < 2; ++i) pthread_join(t[i], 0);
  return 0;
}
